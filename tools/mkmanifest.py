#!/usr/bin/env python3
"""regenerate MANIFEST.json from the table below"""
import json
props = [json.loads(l) for l in open('/verif/properties.jsonl')]
TECH = "machine-checked proof in Coq on a hand-written model (+ translator-generated facts for the MQTT client) + differential correspondence check"
CLAIMS = {
 "C08": dict(engine="coq+rs-core", design="DESIGN.md section 6 C08",
   text="18 Coq theorems (every non-zero word, every field list, no bound) about a hand-written model of packed.rs: unique (bits, capacity) representation, push/pop specs, length growth, failure leaves the key unchanged, FIFO law for arbitrary field lists, LSB bijection on all non-zero words, minimal bits_for. The model is tied to /repo on every run by a differential correspondence (dev and release profile) whose comparison is evaluated inside Coq.",
   note="trusted: Coq kernel; hand-written model of packed.rs (trailing/leading zeros, shifts with explicit mod 2^64); the correspondence is testing on the generated cases listed in the evidence; x86_64 usize"),
 "C15": dict(engine="coq+rs-core", design="DESIGN.md section 6 C15",
   text="11 Coq theorems for every separator character (multi-byte included) and every Unicode string: PathIter = split at every separator, root() = drop the first segment, no slice off a char boundary, fused; the four JSON-path notations mixed freely yield the same keys; written Path/JsonPath forms parse back; JsonPathIter never slices out of range and is fused. Tie: exhaustive short strings + random long ones + node writes, compared inside Coq.",
   note="trusted: Coq kernel; hand-written model of str::split_at/get/find/strip_prefix/len_utf8 and itoa; correspondence is testing"),

 "C01": dict(engine="coq+rs-gen", design="DESIGN.md section 6 C01",
   text="Coq theorems for every schema (all built-in impls, derive expansions, any nesting), value, callback oracle, codec behaviour, key source and operation: write_frame (either nothing changed, or exactly one leaf write and the new tree is the old one with that leaf replaced by the decoded payload), a write is followed only by Ok or a validator's Invalid, every other failure leaves the tree unchanged, reads never write. Tie: generated derive programs compiled against /repo, whole-tree snapshots by plain field access after every operation of read/write histories, compared inside Coq.",
   note="trusted: Coq kernel; hand-written model of impls.rs/leaf.rs/derive (coq/Tree.v); generator+emitter; the leaf codec enters as a table produced by serde-json-core itself; correspondence is testing"),
 "C02": dict(engine="coq+rs-gen", design="DESIGN.md section 6 C02",
   text="Coq theorems: the bottom-up depth bookkeeping of all impls equals one top-down walk counting consumed keys (walk_is_run: same outcome, depth, new value, callback log, for all four value operations); structural_agreement between the type-level traversal and every value operation (relation R: equal structural outcome unless a failure at a depth not deeper pre-empts); the traversal never reports Absent/Access/Invalid. Tie: five operations x key representations x runtime states on generated programs.",
   note="trusted: as C01; step order inside one node is the model's transliteration of the code, validated by the correspondence"),
 "C03": dict(engine="coq+rs-gen", design="DESIGN.md section 6 C03",
   text="Coq theorems: NodeIter on schemas simulates the shape-level odometer; |enum|+2 calls of next() yield exactly the depth-first enumeration with cut-off, each node once, in order, then None (any schema, any D, any target that does not run out of capacity); with D >= max_depth all yielded nodes are leaves and their number is Metadata.count. Tie: nodes::<N,D>() for five targets on generated programs vs the model.",
   note="trusted: as C01; targets with insufficient capacity are covered by C11's correspondence only"),
 "C04": dict(engine="coq+rs-gen", design="DESIGN.md section 6 C04",
   text="Coq theorems: callback count = reported depth; index form of any key that reaches a node resolves to the same node and re-transcoding is a fixpoint; chained key sources behave as concatenation; written Path/JsonPath forms parse back. Tie: every node x representation pairs x chain splits x capacities, recording callback, on generated programs.",
   note="trusted: as C01; round trip through names assumes pairwise distinct child names (rename collisions are accepted by the macro: see DESIGN known finding discussion); name round trip is decided by the correspondence, not proved"),
 "C06": dict(engine="coq+rs-gen", design="DESIGN.md section 6 C06",
   text="Coq theorems: meta_exact (count = number of leaves; max_depth/max_length/max_bits = maxima over the per-leaf statistics, attained and not exceeded) for every well-formed schema; Metadata and the recording walk are instances of one generic walk that passes exactly the children and lookup of every internal node. Tie: traverse_all::<Metadata> and a recording Walk on generated programs (array/tuple-struct lengths around powers of ten and two).",
   note="trusted: as C01; 'buffers sized from metadata suffice' is decided by correspondence + packed_bound (C09), the path-length half is not proved; count overflow beyond 2^64 leaves is outside the model"),
 "C09": dict(engine="coq+rs-gen", design="DESIGN.md section 6 C09",
   text="Coq theorems: the packed key of a node is push_all over the (width,index) fields of its path; packed_decodes (every key decodes back to its node), packed_injective, packed_order (numeric order = lexicographic order for non-prefix nodes), packed_bound (bits <= max_bits), packed_stable (appending children within a power of two keeps all keys). Tie: transcode::<Packed>, nodes::<Packed,D>, max_bits on generated programs.",
   note="trusted: as C01 and C08; sibling counts up to 2^63"),
 "C11": dict(engine="coq+rs-gen", design="DESIGN.md section 6 C11",
   text="Coq theorems: iteration rooted at any node (root given in any key representation: iter_root_state) with any depth limit yields exactly the enumeration with cut-off of the subtree, prefixed by the root path, then None; fused. Capacity-error behaviour and ExactSize are decided by the correspondence and the Stage C predicate only.",
   note="trusted: as C01; partial: no theorem for the capacity-error arm and for ExactSize::len"),
 "C12": dict(engine="coq+rs-gen", design="DESIGN.md section 6 C12",
   text="Coq theorems: per field (deny stops; failing getter is the last callback; errors pass through without validators; validators only on deserialize, after the child, with the depth from below, may replace it, failure is Invalid at the field) and for the whole access (run_protocol: the log is a nest getters top-down / one leaf access / validators bottom-up; validators only after the leaf was written). Tie: scripted get/get_mut/validate/deny on generated programs, real call log vs the model's log.",
   note="trusted: as C01; user callbacks are an oracle table quantified in the theorems and scripted in the generated Rust"),
 "C16": dict(engine="coq+rs-gen", design="DESIGN.md section 6 C16",
   text="Coq theorems: every explicit panic site of the model (unreachable!() arms, slice index, str slice, shifts) is unreachable: knext_bound, run_no_panic (well-typed values), trav_no_panic, path/json no panic, wide packed widths refused. Tie: malformed keys/payloads on generated programs in the dev and release profile under catch_unwind.",
   note="trusted: as C01; partial: panics inside serde-json-core, postcard, heapless, itoa, core and memory safety are outside the model; NodeIter's loop no-panic is shown by simulation for total targets only"),
 "C17": dict(engine="coq+py", design="DESIGN.md section 6 C17",
   text="9 Coq theorems about the sequential dispatcher both Python clients funnel every message through (coq/Py.v): for any message history and any set of other in-flight requests the completions of a request are those of its own entry run alone (dispatch_projection), foreign / unknown / code-less messages are inert, at most one completion, Continue payloads in order then the final Ok payload, error code and text raised, nothing without a final message, the synchronous client delivers what the asynchronous one does; _Path.normalize keeps paths absolute. Tie: the real sync (threads) and async (event loop) clients over stub paho / aiomqtt vs the model, evaluated inside Coq.",
   note="trusted: Coq kernel; hand-written model of _dispatch and the tail of _do; stub transports; partial: thread / event-loop scheduling, uuid1 uniqueness and timeouts are the environment"),
 "C07": dict(engine="coq+rs-mqtt", design="DESIGN.md section 6 C07",
   text="Coq theorems over the step model of MqttClient::update (coq/Mqtt.v; transition table and limits regenerated from lib.rs by the translator on every run): exact answer of every request kind (on_message_answers), at most one immediate response on the request's response topic with its correlation data, busy refusal leaves the pending answer untouched, requests change the protocol state only from Single, no response without a request; a list answer spread over ANY schedule of update() calls and capacities refines 'take the next slots leaves' (list_refines): one Continue per leaf in iteration order, then one Ok. Tie: the real client on an in-memory broker stub under request / back-pressure / partial-write / fault schedules, compared step by step inside Coq; Stage C evaluates the property text on the packet log.",
   note="trusted: Coq kernel; translator; hand-written model of update()/poll()/iter_list(); minimq, the socket, the broker and the clock are the environment (can_publish, acceptance counts, SessionReset observed per call); the settings tree enters as an oracle (json::get/set_by_key on a clone)"),
 "C10": dict(engine="coq+rs-mqtt", design="DESIGN.md section 6 C10",
   text="Coq theorems: pump_dump_det (one call takes the next n leaves in order, each once; absent skipped, oversize reported with code Error on the leaf topic), dump_refines (for EVERY schedule of calls, capacities and interleaved requests the state-action outputs equal the abstract walk), chunks partition a prefix of the leaf list and the whole list at completion, the client is back in Single then; the initial dump covers all leaves. Tie and Stage C as C07, with values around the transmit-buffer size, absent leaves, API and MQTT-requested dumps.",
   note="trusted: as C07; 'value too large' is minimq's verdict (observed), the payload of each message is compared with json::get on the settings at the time of the call"),
 "C13": dict(engine="coq+rs-mqtt", design="DESIGN.md section 6 C13",
   text="Coq theorems: startup_monitor (for every history of environments every update() satisfies the start-up monitor over a history variable: alive first and once per epoch, then the subscription which arms the timer, the decision to dump no earlier than DUMP_TIMEOUT after it, the full dump started once, no settings value published before, nothing else looks like alive/subscribe), restart on disconnection / session reset / API reset, DUMP_TIMEOUT = 2000 ms from the source. Tie: drops, refused connects, session-present/absent reconnects, withheld SUBACKs, partial writes, early retained Sets; Stage C checks order, timing, the will of every CONNECT, the subscription filter/no-local flag and liveness of the dump on the packet log.",
   note="trusted: as C07; clock readings are inputs (the theorem compares the readings the client saw); the retained empty will is checked on the CONNECT packets only (constructor code is not modelled)"),
 "C14": dict(engine="coq+rs-mqtt", design="DESIGN.md section 6 C14",
   text="Coq theorems: update() reports a change iff the request handled in that call is a non-empty payload on prefix/settings<path> accepted by the tree (changed_iff_set_ok, changed_only_by_message); step_no_panic / run_no_panic (none of the process_event unwraps can fail in any state under any environment, for every history); over-long response topic / correlation data refused with an Error response and nothing cached; foreign topics ignored; limits 128/32 from the source. Tie: arbitrary topics / payloads / property lengths in every protocol state, pipelined requests, values around the buffer size, under catch_unwind.",
   note="trusted: as C07; panics inside minimq / serde-json-core / heapless and the unwraps on minimq results (publish after can_publish) are outside the model and covered by the correspondence runs only"),
 "C18": dict(engine="coq+py+rs-mqtt", design="DESIGN.md section 6 C18",
   text="Coq theorems composing the device model with the Python dispatcher model through to_py (coq/E2E.v): get yields the JSON value, an accepted set completes normally, every Error response raises with the device's code and text, a list accepted when idle is answered over any schedule by exactly the leaf paths in iteration order; response-code wire strings vs the Python literals, topic layout and correlation-data length (16 <= 32) agree (facts regenerated from both sources by the translator). Tie: real Python clients encode the requests, the real Rust client answers, its packets are fed unchanged into the Python dispatchers; results vs the device oracle and vs the model.",
   note="trusted: as C07 and C17; broker routing, UTF-8 decoding and json.loads are the environment"),
}
checks = []
for p in props:
    if p['id'] in CLAIMS:
        c = CLAIMS[p['id']]
        checks.append(dict(property_id=p['id'], quick_cmd=f"./check {p['id']} --tier quick", thorough_cmd=f"./check {p['id']} --tier thorough",
            evidence_file=f"evidence/{p['id']}.json", replay_cmd_template=f"./check {p['id']} --replay {{path}}", engine=c['engine'],
            level_claimed=dict(category="proof", text=c['text'], design_ref=c['design']),
            level_note=c['note'], technique=c.get('technique', TECH)))
m = dict(version=1, setup_cmd="./check --setup",
  hooks=dict(guard="cargo feature `verif` of miniconf_mqtt (off by default)",
             enable="harness/rs-mqtt depends on miniconf_mqtt with features=[\"verif\"]; no other harness needs hooks",
             baseline_off_cmd="cd /repo && cargo test --workspace --no-fail-fast --offline --lib --tests",
             source_commits=["bae3dc6", "2f7f58a"], add_only=True),
  engines=[dict(name="coq", path="coq/", serves_properties=sorted(CLAIMS), kind_free_text="Coq 8.16 development: models, proofs, pinned property files (coq/Properties)"),
           dict(name="rs-core", path="harness/rs-core", serves_properties=[k for k in ["C08", "C15"] if k in CLAIMS], kind_free_text="Rust harness over /repo's miniconf for Packed and the string splitters"),
           dict(name="rs-gen", path="harness/rs-gen + lib/gen", serves_properties=[k for k in ["C01","C02","C03","C04","C06","C09","C11","C12","C16"] if k in CLAIMS], kind_free_text="generated derive programs (python generator, Rust emitter, sharded cargo workspace built against /repo) + common harness crate"),
           dict(name="rs-mqtt", path="harness/rs-mqtt + translator/", serves_properties=[k for k in ["C07","C10","C13","C14","C18"] if k in CLAIMS], kind_free_text="real MqttClient on an in-memory socket and MQTT5 broker stub (feature verif probes); translator regenerates coq/Generated.v from lib.rs and the Python sources"),
           dict(name="py", path="harness/py", serves_properties=[k for k in ["C17","C18"] if k in CLAIMS], kind_free_text="real sync / async Python clients over stub paho / aiomqtt; e2e driver"),
           dict(name="check", path="check", serves_properties=sorted(CLAIMS), kind_free_text="python runner: stage A (proof), B (tie), C (search for a failing input), evidence")],
  checks=checks,
  not_applicable=[dict(property_id=p['id'], reason="check not built yet (planned with the same technique, see DESIGN.md section 6); not claimed in this commit") for p in props if p['id'] not in CLAIMS],
  notes="see DESIGN.md; known_findings.txt lists repaired defects (fix: commits in /repo) and recorded findings")
json.dump(m, open('/verif/MANIFEST.json', 'w'), indent=1)
print(sorted(CLAIMS))
