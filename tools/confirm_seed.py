#!/usr/bin/env python3
"""confirm a seeded fault in its scratch worktree: suite passes with the patch, demo fails with it, passes without.
usage: confirm_seed.py <worktree> <outdir(A|B)> [crate] [features]"""
import subprocess, sys, os, shutil, re, json
wt, out = sys.argv[1], sys.argv[2]
crate = sys.argv[3] if len(sys.argv) > 3 else "miniconf"
feats = sys.argv[4] if len(sys.argv) > 4 else "json-core,derive,postcard,std"
def sh(cmd, cwd=wt):
    p = subprocess.run(cmd, cwd=cwd, shell=True, stdout=subprocess.PIPE, stderr=subprocess.STDOUT, text=True)
    return p.returncode, p.stdout
def suite():
    rc, o = sh("cargo test --workspace --no-fail-fast --offline --lib --tests 2>&1")
    passed = sum(int(m) for m in re.findall(r"test result: \w+\. (\d+) passed", o))
    failed = sum(int(m) for m in re.findall(r"(\d+) failed;", o))
    return passed, failed
def demo():
    rc, o = sh(f"cargo test --offline -p {crate} --features {feats} --test seed_demo 2>&1")
    return rc, o[-600:]
res = {}
sh("git checkout -- . ")
dst = os.path.join(wt, crate, "tests", "seed_demo.rs")
rc, o = sh(f"git apply --check {out}/patch.diff")
assert rc == 0, o
sh(f"git apply {out}/patch.diff")
res["suite_with_patch"] = suite()
shutil.copy(os.path.join(out, "demo.rs"), dst)
res["demo_with_patch_rc"], t1 = demo()
sh("git checkout -- .")
res["demo_without_patch_rc"], t2 = demo()
os.remove(dst)
res["ok"] = res["suite_with_patch"] == (57, 0) and res["demo_with_patch_rc"] != 0 and res["demo_without_patch_rc"] == 0
print(json.dumps(res))
if not res["ok"]:
    print(t1); print(t2)
