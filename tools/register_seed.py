#!/usr/bin/env python3
"""register_seed.py <name> <property> <outdir> <needs...>: copy a confirmed seeded fault into /verif/seeded/<name>/"""
import sys, os, shutil, json, subprocess
name, prop, out = sys.argv[1:4]
needs = " ".join(sys.argv[4:])
d = os.path.join("/verif/seeded", name)
os.makedirs(d, exist_ok=True)
for f in os.listdir(out):
    p = os.path.join(out, f)
    if os.path.isfile(p) and os.path.getsize(p) < 200000:
        shutil.copy(p, d)
    elif os.path.isdir(p) and f == "demo":
        shutil.copytree(p, os.path.join(d, "demo"), dirs_exist_ok=True, ignore=shutil.ignore_patterns("target"))
conf = "{}"
key = os.path.basename(out.rstrip("/").split(".out")[0]) + " " + os.path.basename(out.rstrip("/"))
for line in open("/tmp/mut/confirm.log") if os.path.exists("/tmp/mut/confirm.log") else []:
    if line.startswith(key + " "):
        conf = line[len(key) + 1:].strip()
meta = dict(breaks_property=prop, base_commit=subprocess.run(["git", "-C", "/repo", "rev-parse", "HEAD"], stdout=subprocess.PIPE, text=True).stdout.strip(),
            needs_to_manifest=needs, confirmed=json.loads(conf or "{}"),
            confirmed_by="tools/confirm_seed.py in a scratch worktree: `cargo test --workspace --no-fail-fast --offline --lib --tests` with the patch (57 pass), demo.rs as miniconf/tests/seed_demo.rs fails with the patch and passes without",
            detected_by=[])
json.dump(meta, open(os.path.join(d, "meta.json"), "w"), indent=1)
print(d, conf)
