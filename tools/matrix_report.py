#!/usr/bin/env python3
"""matrix_report.py <matrix log>: write seeded/MATRIX.md and fill detected_by in seeded/*/meta.json"""
import sys, re, json, os, collections
log = sys.argv[1]
res = collections.OrderedDict()
for line in open(log):
    m = re.match(r"(C\d\d-[A-H]) (C\d\d) => (.*)", line.strip())
    if not m:
        continue
    seed, prop, out = m.groups()
    if "VIOLATION property=%s" % prop in out:
        how = "nfi" if "no-failing-input-found" in out else "input"
    elif out.startswith("no violation") or "VIOLATION" not in out:
        how = "-"
    else:
        how = "?"
    res.setdefault(seed, collections.OrderedDict())[prop] = how
lines = ["# Seeded faults vs quick checks (seed 1)", "",
         "`input` = VIOLATION with a concrete failing input as replay; `nfi` = VIOLATION ... no-failing-input-found (a theorem or",
         "correspondence channel no longer checks); `-` = the check stays quiet (the fault is outside that property).", "",
         "| seeded fault | breaks | what it needs | checks run: result |", "|---|---|---|---|"]
for seed, props in res.items():
    meta_p = os.path.join("/verif/seeded", seed, "meta.json")
    meta = json.load(open(meta_p))
    meta["detected_by"] = [dict(check=p, result=h) for p, h in props.items() if h in ("input", "nfi")]
    json.dump(meta, open(meta_p, "w"), indent=1)
    lines.append("| %s | %s | %s | %s |" % (seed, meta["breaks_property"], meta.get("needs_to_manifest", "").replace("|", "/"),
                                           ", ".join("%s: %s" % (p, h) for p, h in props.items())))
own_missed = [s for s, props in res.items() if props.get(s[:3]) not in ("input", "nfi")]
lines += ["", "Faults not caught by the check of the property they were written against: %s" % (", ".join(own_missed) or "none")]
open("/verif/seeded/MATRIX.md", "w").write("\n".join(lines) + "\n")
print("\n".join(lines[-3:]))
