#!/bin/bash
# usage: seed_matrix.sh <logfile> <seed:prop,prop...> ...   — runs the quick checks of the listed properties against each seed
log=$1; shift
: > $log
for spec in "$@"; do
  seed=${spec%%:*}; props=${spec#*:}
  cd /repo && git diff --quiet || { echo "/repo not clean" >> $log; exit 2; }
  git -C /repo apply /verif/seeded/$seed/patch.diff || { echo "$seed: patch does not apply" >> $log; continue; }
  cd /verif
  for p in ${props//,/ }; do
    out=$(./check $p --tier quick 2>/dev/null | grep -E "VIOLATION|KNOWN" | head -3 | tr '\n' ' ')
    echo "$seed $p => ${out:-no violation}" >> $log
  done
  git -C /repo checkout -- .
done
echo DONE >> $log
