#!/bin/bash
# usage: try_seed.sh <patch.diff> <prop> [<prop>...]  — applies the patch to /repo, runs the quick checks, undoes it
set -u
patch=$1; shift
cd /repo && git diff --quiet || { echo "/repo not clean"; exit 2; }
git -C /repo apply "$patch" || exit 2
cd /verif
for p in "$@"; do
  echo "== $p with $(basename $(dirname $patch))/$(basename $patch)"
  ./check $p --tier quick 2>/dev/null | grep -E "VIOLATION|KNOWN" ; echo "exit=${PIPESTATUS[0]}"
done
git -C /repo checkout -- .
