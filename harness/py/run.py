#!/usr/bin/env python3
"""Implementation-side runner for the Python client (C17/C18): drives the real miniconf.sync and
miniconf.async_ Miniconf._do / _dispatch through stub paho / aiomqtt modules.
stdin: one JSON case per line; stdout: one JSON observation per line."""
import sys, os, json, threading, asyncio, time
HERE = os.path.dirname(os.path.abspath(__file__))
REPO = os.environ.get("VERIF_REPO", "/repo")
sys.path[:0] = [os.path.join(HERE, "stubs"), os.path.join(REPO, "py", "miniconf-mqtt")]
import logging
logging.disable(logging.CRITICAL)
import miniconf.sync as ms
import miniconf.async_ as ma
from miniconf.common import _Path, MiniconfException
from paho.mqtt.client import Client as PahoClient, MQTTMessage
from paho.mqtt.properties import Properties, PacketTypes
import aiomqtt

PREFIX = "dt/x"


def props_for(m, cds):
    """message description -> (topic, Properties or None)"""
    topic = PREFIX + "/response" if m.get("topic_ok", True) else PREFIX + "/other"
    if m.get("noprops"):
        return topic, None
    p = Properties(PacketTypes.PUBLISH)
    cd = m.get("cd")
    if cd is not None:
        known = isinstance(cd, int) and cd < len(cds) and cds[cd] is not None
        p.CorrelationData = cds[cd] if known else bytes([200 + (cd % 50)] * 16)
    code = m.get("code")
    up = []
    if code is not None:
        up.append(("code", code))
    if m.get("extra_user"):
        up.append(("other", "x"))
    if up or m.get("empty_user"):
        p.UserProperty = up
    return topic, p


def outcome(kind, val):
    return [kind, val]


def classify(exc):
    if isinstance(exc, MiniconfException):
        if exc.code == "Not a leaf":
            return ["notaleaf", [x if isinstance(x, str) else repr(x) for x in exc.message]]
        return ["failed", exc.code, exc.message]
    if isinstance(exc, AssertionError):
        return ["assert"]
    return ["exception", type(exc).__name__, str(exc)]


def join_done(threads, cds, m):
    """wait (independently of machine load) for exactly the request threads whose entry the dispatcher has
    completed or that never had one; requests still in flight block forever and are left alone"""
    for i, t in enumerate(threads):
        cd = cds[i] if i < len(cds) else None
        if cd is None or cd not in m._inflight:
            t.join(30)
        else:
            t.join(0.005)


def run_sync(case):
    c = PahoClient()
    m = ms.Miniconf(c, PREFIX)
    results = [None] * len(case["requests"])
    threads = []
    for i, rq in enumerate(case["requests"]):
        def work(i=i, rq=rq):
            try:
                r = m._do(rq.get("path", "/p"), response=rq["mode"], timeout=30)
                results[i] = ["value", r] if rq["mode"] == 1 else (["values", r] if rq["mode"] == 2 else ["none"])
            except BaseException as e:  # noqa
                results[i] = classify(e)
        n0 = len(c.sent)
        t = threading.Thread(target=work, daemon=True)
        t.start()
        while len(c.sent) == n0:
            time.sleep(0.0005)
        threads.append(t)
    cds = [props.CorrelationData if hasattr(props, "CorrelationData") else None for (_, props, _) in c.sent]
    for msg in case["messages"]:
        topic, p = props_for(msg, cds)
        m._dispatch(None, None, MQTTMessage(topic, msg.get("payload", "").encode(), p))
    join_done(threads, cds, m)
    return [r if r is not None else ["pending"] for r in results], len(m._inflight)


def run_async(case):
    async def main():
        client = aiomqtt.Client()
        client.publish_yields = case.get("publish_yields", 0)
        m = ma.Miniconf(client, PREFIX)
        await asyncio.sleep(0)
        results = [None] * len(case["requests"])

        async def work(i, rq):
            try:
                r = await m._do(rq.get("path", "/p"), response=rq["mode"])
                results[i] = ["value", r] if rq["mode"] == 1 else (["values", r] if rq["mode"] == 2 else ["none"])
            except asyncio.CancelledError:
                results[i] = ["pending"]
            except BaseException as e:  # noqa
                results[i] = classify(e)
        tasks = []
        for i, rq in enumerate(case["requests"]):
            n0 = len(client.sent)
            tasks.append(asyncio.ensure_future(work(i, rq)))
            while len(client.sent) == n0:
                await asyncio.sleep(0)
        cds = [getattr(props, "CorrelationData", None) for (_, props, _) in client.sent]
        for msg in case["messages"]:
            topic, p = props_for(msg, cds)
            m._dispatch(aiomqtt.Message(topic, msg.get("payload", "").encode(), p))
            await asyncio.sleep(0)
        for _ in range(8 + 2 * case.get("publish_yields", 0)):
            await asyncio.sleep(0)
        for t in tasks:
            if not t.done():
                t.cancel()
        await asyncio.gather(*tasks, return_exceptions=True)
        n = len(m._inflight)
        m.listener.cancel()
        try:
            await m.listener
        except BaseException:  # noqa
            pass
        return [r if r is not None else ["pending"] for r in results], n
    return asyncio.run(main())


# ------------------------------------------------------------------------------------------ C18
# end to end: the real Python client encodes the requests, the real Rust client (harness/rs-mqtt,
# binary path in the case) answers them, the packets it emitted are fed unchanged into the Python
# dispatcher.
import subprocess
E2E_PREFIX = "dt/dev"
STARTUP = 48
GAP = 22


def e2e_call(m, rq):
    """the public API call of one request -> canonical result (run inside a thread / task)"""
    api = rq["api"]
    if api == "get":
        return m.get(rq["path"])
    if api == "set":
        return m.set(rq["path"], rq["value"])
    if api == "list":
        return m.list(rq["path"])
    if api == "dump":
        return m.dump(rq["path"])
    raise ValueError(api)


def e2e_canon(rq, r):
    if rq["api"] == "get":
        return ["value", json.dumps(r, separators=(",", ":"), ensure_ascii=False)]
    if rq["api"] == "set":
        return ["value", r]
    if rq["api"] == "list":
        return ["values", r]
    return ["none"] if r is None else ["value", repr(r)]


def e2e_schedule(case, sent):
    steps = [dict(dt=400) for _ in range(STARTUP)]
    for (topic, props, kw) in sent:
        msg = dict(topic=topic, payload=list((kw.get("payload") or "").encode()) if isinstance(kw.get("payload") or "", str) else list(kw.get("payload")))
        if kw.get("retain"):
            msg["retain"] = True
        rt = getattr(props, "ResponseTopic", None) if props is not None else None
        cd = getattr(props, "CorrelationData", None) if props is not None else None
        if rt is not None:
            msg["resp"] = rt
        if cd is not None:
            msg["cd"] = list(cd)
        steps.append(dict(dt=100, msg=msg))
        steps += [dict(dt=100) for _ in range(GAP)]
    return dict(settings=case["settings"], init=case.get("init", {}), prefix=E2E_PREFIX, buffer=case.get("buffer", 8192), kind="e2e", steps=steps)


def e2e_device(case, sent):
    sched = e2e_schedule(case, sent)
    p = subprocess.run([case["rs_bin"]], input=json.dumps(sched) + "\n", stdout=subprocess.PIPE, stderr=subprocess.PIPE, text=True, timeout=600)
    if p.returncode != 0:
        raise RuntimeError("device harness failed: " + p.stderr[-500:])
    res = json.loads(p.stdout.split("\n")[0])
    packets, records = [], []
    for k, st in enumerate(res["steps"]):
        if k < STARTUP:
            continue
        if (k - STARTUP) % (GAP + 1) == 0:
            orc = st.get("oracle") or {}
            # did the device put the value it holds on the wire in this call? (no: minimq's transmit buffer could not hold it)
            sent_value = any(pk["t"] == "pub" and pk["payload"] == orc.get("get") for pk in st.get("packets", []))
            records.append(dict(state=st["before"]["state"], handled=st.get("handled") is not None, oracle=st.get("oracle"), can_publish=st["before"]["can_publish"],
                                value_sent=sent_value))
        for pk in st.get("packets", []):
            if pk["t"] == "pub" and not pk["dup"]:
                packets.append(pk)
    return packets, records, res["steps"][-1]["after"]["state"] if "after" in res["steps"][-1] else "?"


def e2e_props(pk):
    p = Properties(PacketTypes.PUBLISH)
    if pk["props"]["cd"] is not None:
        p.CorrelationData = bytes(pk["props"]["cd"])
    if pk["props"]["user"]:
        p.UserProperty = [tuple(x) for x in pk["props"]["user"]]
    return p


def run_e2e_sync(case):
    c = PahoClient()
    m = ms.Miniconf(c, E2E_PREFIX)
    results = [None] * len(case["requests"])
    threads = []
    for i, rq in enumerate(case["requests"]):
        def work(i=i, rq=rq):
            try:
                results[i] = e2e_canon(rq, e2e_call(m, rq))
            except BaseException as e:  # noqa
                results[i] = classify(e)
        n0 = len(c.sent)
        t = threading.Thread(target=work, daemon=True)
        t.start()
        t0 = time.time()
        while len(c.sent) == n0 and time.time() - t0 < 120:
            time.sleep(0.0005)
        threads.append(t)
    packets, records, final = e2e_device(case, c.sent)
    for pk in packets:
        m._dispatch(None, None, MQTTMessage(pk["topic"], bytes(pk["payload"]), e2e_props(pk)))
    join_done(threads, [getattr(props, "CorrelationData", None) if props is not None else None for (_, props, _) in c.sent], m)
    return [[r if r is not None else ["pending"] for r in results], len(m._inflight), records, [[pk["topic"], pk["payload"], pk["props"]] for pk in packets], sent_json(c.sent)]


def sent_json(sent):
    out = []
    for (topic, props, kw) in sent:
        cd = getattr(props, "CorrelationData", None) if props is not None else None
        out.append(dict(topic=topic, payload=kw.get("payload"), retain=bool(kw.get("retain")),
                        resp=getattr(props, "ResponseTopic", None) if props is not None else None, cd=list(cd) if cd is not None else None))
    return out


def run_e2e_async(case):
    async def main():
        client = aiomqtt.Client()
        m = ma.Miniconf(client, E2E_PREFIX)
        await asyncio.sleep(0)
        results = [None] * len(case["requests"])

        async def work(i, rq):
            try:
                api = rq["api"]
                if api == "get":
                    r = await m.get(rq["path"])
                elif api == "set":
                    r = await m.set(rq["path"], rq["value"])
                elif api == "list":
                    r = await m.list(rq["path"])
                else:
                    r = await m.dump(rq["path"])
                results[i] = e2e_canon(rq, r)
            except asyncio.CancelledError:
                results[i] = ["pending"]
            except BaseException as e:  # noqa
                results[i] = classify(e)
        tasks = []
        for i, rq in enumerate(case["requests"]):
            n0 = len(client.sent)
            tasks.append(asyncio.ensure_future(work(i, rq)))
            for _ in range(200):
                if len(client.sent) != n0:
                    break
                await asyncio.sleep(0)
        packets, records, final = e2e_device(case, client.sent)
        for pk in packets:
            m._dispatch(aiomqtt.Message(pk["topic"], bytes(pk["payload"]), e2e_props(pk)))
            await asyncio.sleep(0)
        for _ in range(5):
            await asyncio.sleep(0)
        for t in tasks:
            if not t.done():
                t.cancel()
        await asyncio.gather(*tasks, return_exceptions=True)
        n = len(m._inflight)
        m.listener.cancel()
        try:
            await m.listener
        except BaseException:  # noqa
            pass
        return [[r if r is not None else ["pending"] for r in results], n, records, [[pk["topic"], pk["payload"], pk["props"]] for pk in packets], sent_json(client.sent)]
    return asyncio.run(main())


def run_normalize(case):
    p = _Path()
    out = []
    for x in case["paths"]:
        try:
            out.append(p.normalize(x))
        except AssertionError:
            out.append(None)
    return out, p.current


def main():
    for line in sys.stdin:
        case = json.loads(line)
        try:
            if case["kind"] == "dispatch":
                r = (run_sync if case["client"] == "sync" else run_async)(case)
            elif case["kind"] == "e2e":
                r = (run_e2e_sync if case["client"] == "sync" else run_e2e_async)(case)
            else:
                r = run_normalize(case)
            print(json.dumps(r))
        except BaseException as e:  # noqa
            print(json.dumps(["harness-error", type(e).__name__, str(e)]))
        sys.stdout.flush()


if __name__ == "__main__":
    main()
