#!/usr/bin/env python3
"""Implementation-side runner for the Python client (C17/C18): drives the real miniconf.sync and
miniconf.async_ Miniconf._do / _dispatch through stub paho / aiomqtt modules.
stdin: one JSON case per line; stdout: one JSON observation per line."""
import sys, os, json, threading, asyncio, time
HERE = os.path.dirname(os.path.abspath(__file__))
REPO = os.environ.get("VERIF_REPO", "/repo")
sys.path[:0] = [os.path.join(HERE, "stubs"), os.path.join(REPO, "py", "miniconf-mqtt")]
import logging
logging.disable(logging.CRITICAL)
import miniconf.sync as ms
import miniconf.async_ as ma
from miniconf.common import _Path, MiniconfException
from paho.mqtt.client import Client as PahoClient, MQTTMessage
from paho.mqtt.properties import Properties, PacketTypes
import aiomqtt

PREFIX = "dt/x"


def props_for(m, cds):
    """message description -> (topic, Properties or None)"""
    topic = PREFIX + "/response" if m.get("topic_ok", True) else PREFIX + "/other"
    if m.get("noprops"):
        return topic, None
    p = Properties(PacketTypes.PUBLISH)
    cd = m.get("cd")
    if cd is not None:
        known = isinstance(cd, int) and cd < len(cds) and cds[cd] is not None
        p.CorrelationData = cds[cd] if known else bytes([200 + (cd % 50)] * 16)
    code = m.get("code")
    up = []
    if code is not None:
        up.append(("code", code))
    if m.get("extra_user"):
        up.append(("other", "x"))
    if up or m.get("empty_user"):
        p.UserProperty = up
    return topic, p


def outcome(kind, val):
    return [kind, val]


def classify(exc):
    if isinstance(exc, MiniconfException):
        if exc.code == "Not a leaf":
            return ["notaleaf", [x if isinstance(x, str) else repr(x) for x in exc.message]]
        return ["failed", exc.code, exc.message]
    if isinstance(exc, AssertionError):
        return ["assert"]
    return ["exception", type(exc).__name__, str(exc)]


def run_sync(case):
    c = PahoClient()
    m = ms.Miniconf(c, PREFIX)
    results = [None] * len(case["requests"])
    threads = []
    for i, rq in enumerate(case["requests"]):
        def work(i=i, rq=rq):
            try:
                r = m._do(rq.get("path", "/p"), response=rq["mode"], timeout=30)
                results[i] = ["value", r] if rq["mode"] == 1 else (["values", r] if rq["mode"] == 2 else ["none"])
            except BaseException as e:  # noqa
                results[i] = classify(e)
        n0 = len(c.sent)
        t = threading.Thread(target=work, daemon=True)
        t.start()
        while len(c.sent) == n0:
            time.sleep(0.0005)
        threads.append(t)
    cds = [props.CorrelationData if hasattr(props, "CorrelationData") else None for (_, props, _) in c.sent]
    for msg in case["messages"]:
        topic, p = props_for(msg, cds)
        m._dispatch(None, None, MQTTMessage(topic, msg.get("payload", "").encode(), p))
    for t in threads:
        t.join(0.3 if any(r is None for r in results) else 0.01)
    return [r if r is not None else ["pending"] for r in results], len(m._inflight)


def run_async(case):
    async def main():
        client = aiomqtt.Client()
        m = ma.Miniconf(client, PREFIX)
        await asyncio.sleep(0)
        results = [None] * len(case["requests"])

        async def work(i, rq):
            try:
                r = await m._do(rq.get("path", "/p"), response=rq["mode"])
                results[i] = ["value", r] if rq["mode"] == 1 else (["values", r] if rq["mode"] == 2 else ["none"])
            except asyncio.CancelledError:
                results[i] = ["pending"]
            except BaseException as e:  # noqa
                results[i] = classify(e)
        tasks = []
        for i, rq in enumerate(case["requests"]):
            n0 = len(client.sent)
            tasks.append(asyncio.ensure_future(work(i, rq)))
            while len(client.sent) == n0:
                await asyncio.sleep(0)
        cds = [getattr(props, "CorrelationData", None) for (_, props, _) in client.sent]
        for msg in case["messages"]:
            topic, p = props_for(msg, cds)
            m._dispatch(aiomqtt.Message(topic, msg.get("payload", "").encode(), p))
            await asyncio.sleep(0)
        for _ in range(5):
            await asyncio.sleep(0)
        for t in tasks:
            if not t.done():
                t.cancel()
        await asyncio.gather(*tasks, return_exceptions=True)
        n = len(m._inflight)
        m.listener.cancel()
        try:
            await m.listener
        except BaseException:  # noqa
            pass
        return [r if r is not None else ["pending"] for r in results], n
    return asyncio.run(main())


def run_normalize(case):
    p = _Path()
    out = []
    for x in case["paths"]:
        try:
            out.append(p.normalize(x))
        except AssertionError:
            out.append(None)
    return out, p.current


def main():
    for line in sys.stdin:
        case = json.loads(line)
        try:
            if case["kind"] == "dispatch":
                r = (run_sync if case["client"] == "sync" else run_async)(case)
            else:
                r = run_normalize(case)
            print(json.dumps(r))
        except BaseException as e:  # noqa
            print(json.dumps(["harness-error", type(e).__name__, str(e)]))
        sys.stdout.flush()


if __name__ == "__main__":
    main()
