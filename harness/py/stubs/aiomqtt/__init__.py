"""Minimal stand-in for aiomqtt (not installed): what miniconf/async_.py imports and calls."""
import asyncio


class MqttError(Exception):
    pass


class Topic:
    def __init__(self, v):
        self.value = v

    def __str__(self):
        return self.value


class Message:
    def __init__(self, topic, payload, properties=None):
        self.topic = Topic(topic)
        self.payload = payload
        if properties is not None:
            self.properties = properties


class _Messages:
    """async iterator that never yields on its own: the harness calls _dispatch directly"""
    def __aiter__(self):
        return self

    async def __anext__(self):
        await asyncio.Event().wait()


class Client:
    def __init__(self, *a, **kw):
        self.sent = []
        self.messages = _Messages()

    async def subscribe(self, topic):
        return None

    async def unsubscribe(self, topic):
        return None

    async def publish(self, topic, properties=None, **kw):
        self.sent.append((topic, properties, kw))
        # a publish that completes later (QoS 1: after the broker's acknowledgement): the requester stays suspended here
        # for a few event-loop iterations while responses may already arrive
        for _ in range(getattr(self, "publish_yields", 0)):
            await asyncio.sleep(0)
