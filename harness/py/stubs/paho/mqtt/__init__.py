from . import enums
