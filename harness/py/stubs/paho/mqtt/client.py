class MQTTMessage:
    def __init__(self, topic, payload, properties=None):
        self.topic = topic; self.payload = payload
        if properties is not None: self.properties = properties
class Client:
    def __init__(self): self.sent = []; self.on_subscribe=None; self.on_message=None; self.on_unsubscribe=None
    def subscribe(self, topic):
        if self.on_subscribe: self.on_subscribe(self, None, 1, None, None)
    def unsubscribe(self, topic):
        if self.on_unsubscribe: self.on_unsubscribe(self, None, 1, None, None)
    def publish(self, topic, properties=None, **kw): self.sent.append((topic, properties, kw)); return None
