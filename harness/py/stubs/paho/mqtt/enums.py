import enum
class MQTTProtocolVersion(enum.IntEnum):
    MQTTv5 = 5
