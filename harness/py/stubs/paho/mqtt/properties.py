class PacketTypes:
    PUBLISH = 3
class Properties:
    def __init__(self, packet_type): self.packet_type = packet_type
    def json(self):
        d = {}
        for k in ("ResponseTopic", "CorrelationData", "UserProperty"):
            if hasattr(self, k):
                v = getattr(self, k)
                d[k] = v.hex() if k == "CorrelationData" and isinstance(v, bytes) else v
        return d
