//! Implementation side of the C05 correspondence: json / postcard helpers on one derive(Tree)
//! struct holding every leaf type of the family.  One JSON case per stdin line:
//!   {"path": "/u16_", "init": "<json text>"}  ->  one observation per line (see `run`).
use miniconf::{json, postcard as mpc, Leaf, Path, StrLeaf, Tree};
use postcard::{de_flavors::Slice as DeSlice, ser_flavors::Slice as SerSlice};
use serde::{Deserialize, Serialize};
use serde_json::{json as j, Value};
use std::io::BufRead;

#[derive(Clone, Copy, Debug, PartialEq, Default)]
pub enum Tag3 { #[default] A, Bb, Ccc }
impl AsRef<str> for Tag3 {
    fn as_ref(&self) -> &str { match self { Tag3::A => "A", Tag3::Bb => "Bb", Tag3::Ccc => "Ccc" } }
}
impl TryFrom<&str> for Tag3 {
    type Error = ();
    fn try_from(s: &str) -> Result<Self, ()> { match s { "A" => Ok(Tag3::A), "Bb" => Ok(Tag3::Bb), "Ccc" => Ok(Tag3::Ccc), _ => Err(()) } }
}
#[derive(Clone, Copy, Debug, PartialEq, Default, Serialize, Deserialize)]
pub enum Mode { #[default] Off, Slow, Fast }
#[derive(Clone, Debug, PartialEq, Default, Serialize, Deserialize)]
pub struct Pt { x: i16, on: bool, name: heapless::String<6>, inner: Pt2 }
#[derive(Clone, Debug, PartialEq, Default, Serialize, Deserialize)]
pub struct Pt2 { k: Option<u8>, m: Mode }

#[derive(Tree, Clone, Debug, PartialEq, Default)]
struct Inner {
    f: Leaf<f32>,
    g: Leaf<f64>,
    st: Leaf<Pt>,
    e: Leaf<Mode>,
}
#[derive(Tree, Clone, Debug, PartialEq, Default)]
struct C {
    u8_: Leaf<u8>, i8_: Leaf<i8>, u16_: Leaf<u16>, i16_: Leaf<i16>, u32_: Leaf<u32>, i32_: Leaf<i32>, u64_: Leaf<u64>, i64_: Leaf<i64>,
    b: Leaf<bool>, unit: Leaf<()>, o8: Leaf<Option<i8>>, o32: Leaf<Option<u32>>, arr: Leaf<[u16; 2]>, tup: Leaf<(u8, bool)>,
    s8: Leaf<heapless::String<8>>, s32: Leaf<heapless::String<32>>, tag: StrLeaf<Tag3>,
    nested: Leaf<(i16, [Option<u8>; 2], (bool, heapless::String<8>))>,
    a: [Leaf<i32>; 2],
    opt: Option<Leaf<u16>>,
    inner: Inner,
}

fn bytes(b: &[u8]) -> Value { Value::Array(b.iter().map(|x| j!(*x)).collect()) }

fn run(case: &Value) -> Value {
    let path = case["path"].as_str().unwrap();
    let init = case["init"].as_str().unwrap().as_bytes();
    let mut t = C::default();
    t.opt = Some(Leaf(3));
    // 1. put the value there
    let set0 = match json::set(&mut t, path, init) { Ok(n) => j!(n), Err(e) => j!(format!("{e:?}").chars().take(40).collect::<String>()) };
    let before = t.clone();
    // 2. json: read with every buffer length from 0 to len + 1
    let mut big = vec![0u8; 4096];
    let jlen = json::get(&t, path, &mut big[..]);
    let mut out = serde_json::Map::new();
    out.insert("set0".into(), set0);
    match jlen {
        Ok(n) => {
            let text = big[..n].to_vec();
            let mut sweep = vec![];
            for cap in 0..=n + 1 {
                let mut buf = vec![0xAAu8; cap];
                match json::get(&t, path, &mut buf[..]) {
                    Ok(m) => sweep.push(j!([1, m, buf[..m] == text[..]])),
                    Err(miniconf::Error::Inner(_, _)) => sweep.push(j!([0, 0, true])),
                    Err(e) => sweep.push(j!([2, 0, format!("{e:?}")])),
                }
            }
            out.insert("json".into(), bytes(&text));
            out.insert("json_sweep".into(), Value::Array(sweep));
            out.insert("read_pure".into(), j!(t == before));
            // 3. write the produced bytes back by the same key
            let r = json::set(&mut t, path, &text);
            out.insert("json_set_back".into(), match r { Ok(n) => j!(n), Err(e) => j!(format!("{e:?}")) });
            out.insert("json_identity".into(), j!(t == before));
            // trailing data after the value
            let mut t2 = before.clone();
            let mut extra = text.clone();
            extra.extend_from_slice(b" x");
            out.insert("json_trailing".into(), match json::set(&mut t2, path, &extra) { Ok(n) => j!(n), Err(miniconf::Error::Finalization(_)) => j!("finalization"), Err(e) => j!(format!("{e:?}")) });
        }
        Err(e) => { out.insert("json_err".into(), j!(format!("{e:?}"))); }
    }
    // 4. postcard
    let mut pbig = vec![0u8; 4096];
    let pres = mpc::get_by_key(&t, Path::<_, '/'>::from(path), SerSlice::new(&mut pbig[..])).map(|s| s.to_vec());
    match pres {
        Ok(pb) => {
            let n = pb.len();
            let mut sweep = vec![];
            for cap in 0..=n + 1 {
                let mut buf = vec![0xAAu8; cap];
                match mpc::get_by_key(&t, Path::<_, '/'>::from(path), SerSlice::new(&mut buf[..])) {
                    Ok(s) => sweep.push(j!([1, s.len(), s[..] == pb[..]])),
                    Err(_) => sweep.push(j!([0, 0, true])),
                }
            }
            out.insert("pc".into(), bytes(&pb));
            out.insert("pc_sweep".into(), Value::Array(sweep));
            out.insert("pc_read_pure".into(), j!(t == before));
            let mut withrest = pb.clone();
            withrest.extend_from_slice(&[9, 8, 7]);
            let r = mpc::set_by_key(&mut t, Path::<_, '/'>::from(path), DeSlice::new(&withrest[..]));
            out.insert("pc_set_back".into(), match r { Ok(rem) => bytes(rem), Err(e) => j!(format!("{e:?}")) });
            out.insert("pc_identity".into(), j!(t == before));
            // truncated input must not be accepted
            if n > 0 {
                let mut t3 = before.clone();
                let r = mpc::set_by_key(&mut t3, Path::<_, '/'>::from(path), DeSlice::new(&pb[..n - 1]));
                out.insert("pc_truncated_ok".into(), j!(r.is_ok()));
            }
        }
        Err(e) => { out.insert("pc_err".into(), j!(format!("{e:?}"))); }
    }
    Value::Object(out)
}

fn main() {
    std::panic::set_hook(Box::new(|_| {}));
    let stdin = std::io::stdin();
    for line in stdin.lock().lines() {
        let line = line.unwrap();
        let case: Value = serde_json::from_str(&line).unwrap();
        let r = std::panic::catch_unwind(|| run(&case));
        match r {
            Ok(v) => println!("{v}"),
            Err(_) => println!("{}", j!({"panic": true})),
        }
    }
}
