//! Generic operation runner: one monomorphisation per generated type.
use crate::cb::*;
use crate::keys::*;
use crate::obs::*;
use crate::snap::*;
use miniconf::{Error, Keys, Metadata, Node, Packed, Transcode, Traversal, TreeAny, TreeDeserializeOwned, TreeKey, TreeSerialize, Walk, KeyLookup, NodeIter};
use serde_json::Value;

pub fn trav_obs(t: &Traversal) -> Vec<Obs> {
    match t {
        Traversal::Absent(d) => vec![z(0), z(*d), z(0)],
        Traversal::TooShort(d) => vec![z(1), z(*d), z(0)],
        Traversal::NotFound(d) => vec![z(2), z(*d), z(0)],
        Traversal::TooLong(d) => vec![z(3), z(*d), z(0)],
        Traversal::Access(d, m) => vec![z(4), z(*d), z(msg_id(m))],
        Traversal::Invalid(d, m) => vec![z(5), z(*d), z(msg_id(m))],
    }
}
pub fn err_obs<E>(e: &Error<E>) -> Vec<Obs> {
    match e {
        Error::Traversal(t) => trav_obs(t),
        Error::Inner(d, _) => vec![z(6), z(*d), z(0)],
        Error::Finalization(_) => vec![z(7), z(0), z(0)],
    }
}
fn res_obs<E>(r: &Result<usize, Error<E>>) -> Obs {
    match r { Ok(d) => l(vec![z(0), z(*d)]), Err(e) => { let mut v = vec![z(1)]; v.extend(err_obs(e)); l(v) } }
}
fn tres_obs<T>(r: &Result<T, Traversal>, f: impl FnOnce(&T) -> Obs) -> Obs {
    match r { Ok(x) => l(vec![z(0), f(x)]), Err(e) => { let mut v = vec![z(1)]; v.extend(trav_obs(e)); l(v) } }
}
fn node_obs(n: &Node) -> Obs { l(vec![z(n.depth()), b(n.is_leaf())]) }
fn log_obs() -> Obs { l(take_log().into_iter().map(|(k, id, d)| l(vec![z(k), z(id), z(d)])).collect()) }
fn bytes(v: &Value) -> Vec<u8> { v.as_array().map(|a| a.iter().map(|x| x.as_u64().unwrap() as u8).collect()).unwrap_or_default() }

/// transcode into the target described by op["tg"] = {"t": "unit|idx|path|json|packed|u8", "cap": n, "sep": cp}
fn transcode_op<T: TreeKey>(op: &Value) -> Obs {
    let tg = &op["tg"];
    let capn = tg["cap"].as_u64().unwrap_or(2000) as usize;
    with_keys(&op["keys"], &mut |k| {
        let k = DynKeys(k);
        match tg["t"].as_str().unwrap() {
            "unit" => { let mut t = (); let r = t.transcode::<T, _>(k); l(vec![tres_obs(&r, node_obs), l(vec![])]) }
            "idx" => { let mut t = vec![0usize; capn]; let r = t.as_mut_slice().transcode::<T, _>(k);
                       l(vec![tres_obs(&r, node_obs), if r.is_ok() { l(t.iter().map(|x| z(*x)).collect()) } else { l(vec![]) }]) }
            "u8" => { let mut t = vec![0u8; capn]; let r = t.as_mut_slice().transcode::<T, _>(k);
                      l(vec![tres_obs(&r, node_obs), if r.is_ok() { l(t.iter().map(|x| z(*x)).collect()) } else { l(vec![]) }]) }
            "path" => {
                macro_rules! p { ($c:literal) => {{ let mut t = miniconf::Path::<CapStr, $c>(CapStr { s: String::new(), cap: capn });
                    let r = t.transcode::<T, _>(k); l(vec![tres_obs(&r, node_obs), if r.is_ok() { s(&t.0.s) } else { l(vec![]) }]) }}; }
                match char::from_u32(tg["sep"].as_u64().unwrap() as u32).unwrap() {
                    '/' => p!('/'), '.' => p!('.'), '|' => p!('|'), 'é' => p!('é'), '€' => p!('€'), '😀' => p!('😀'), _ => panic!("sep") }
            }
            "json" => { let mut t = miniconf::JsonPath(CapStr { s: String::new(), cap: capn }); let r = t.transcode::<T, _>(k);
                        l(vec![tres_obs(&r, node_obs), if r.is_ok() { s(&t.0.s) } else { l(vec![]) }]) }
            "packed" => { let mut t = Packed::EMPTY; let r = t.transcode::<T, _>(k);
                          l(vec![tres_obs(&r, node_obs), if r.is_ok() { z(t.get()) } else { l(vec![]) }]) }
            other => panic!("target {other}"),
        }
    })
}

/// raw traverse_by_key with a recording callback that fails at call number op["fail_at"] (if given)
fn rawtrav_op<T: TreeKey>(op: &Value) -> Obs {
    let fail_at = op["fail_at"].as_u64().map(|x| x as usize);
    with_keys(&op["keys"], &mut |k| {
        let mut calls = vec![];
        let r = T::traverse_by_key(DynKeys(k), |index, name, len| {
            if Some(calls.len()) == fail_at { return Err(()); }
            calls.push(l(vec![z(index), opt(name, s), z(len.get())]));
            Ok(())
        });
        l(vec![res_obs(&r), l(calls)])
    })
}

struct Rec(Obs);
impl Walk for Rec {
    type Error = ();
    fn leaf() -> Self { Rec(l(vec![])) }
    fn internal(children: &[&Self], lookup: &KeyLookup) -> Result<Self, ()> {
        let lk = match lookup {
            KeyLookup::Named(n) => l(vec![z(0), l(n.iter().map(|x| s(x)).collect())]),
            KeyLookup::Numbered(n) => l(vec![z(1), z(n.get())]),
            KeyLookup::Homogeneous(n) => l(vec![z(2), z(n.get())]),
        };
        Ok(Rec(l(vec![lk, l(children.iter().map(|c| c.0.clone()).collect())])))
    }
}
fn meta_op<T: TreeKey>() -> Obs {
    let m: Metadata = T::traverse_all().unwrap();
    let r: Rec = T::traverse_all().unwrap();
    l(vec![l(vec![z(m.count.get()), z(m.max_depth), z(m.max_length), z(m.max_bits)]), r.0])
}

fn snap_delta<T: Snap>(t: &T, before: &Obs) -> Obs {
    let after = Snap::snap(t);
    if &after == before { l(vec![z(1)]) } else { l(vec![z(0), after]) }
}
fn ser_op<T: TreeSerialize + Snap>(t: &T, op: &Value, before: &Obs) -> Obs {
            let n = op["buf"].as_u64().unwrap_or(256) as usize;
            let mut buf = vec![0u8; n];
            let (r, len) = with_keys(&op["keys"], &mut |k| {
                let mut ser = serde_json_core::ser::Serializer::new(&mut buf[..]);
                let r = t.serialize_by_key(DynKeys(k), &mut ser);
                (r, ser.end())
            });
            let out = if r.is_ok() { l(buf[..len].iter().map(|x| z(*x)).collect()) } else { l(vec![]) };
            l(vec![res_obs(&r), out, log_obs(), snap_delta(&*t, before)])
}
fn de_op<T: TreeDeserializeOwned + Snap>(t: &mut T, op: &Value, before: &Obs) -> Obs {
            let p = bytes(&op["payload"]);
            let (r, fin) = with_keys(&op["keys"], &mut |k| {
                let mut de = serde_json_core::de::Deserializer::new(&p, None);
                let r = t.deserialize_by_key(DynKeys(k), &mut de);
                let fin = if r.is_ok() { de.end().is_ok() } else { true };
                (r, fin)
            });
            l(vec![res_obs(&r), b(fin), log_obs(), snap_delta(&*t, before)])
}
fn rt_op<T: TreeSerialize + TreeDeserializeOwned + Snap>(t: &mut T, op: &Value, before: &Obs) -> Obs {
            // C05: read by key, then write the produced bytes back by the same key (JSON or postcard);
            // the depth of an Ok is not reported by the postcard helpers: only Ok / the error is observed
            let pc = op["pc"].as_bool().unwrap_or(false);
            let mut buf = vec![0u8; 2048];
            let (r1, len) = with_keys(&op["keys"], &mut |k| {
                if pc {
                    match miniconf::postcard::get_by_key(&*t, DynKeys(k), postcard::ser_flavors::Slice::new(&mut buf[..])).map(|s| s.len()) {
                        Ok(n) => (l(vec![z(0)]), n),
                        Err(e) => { let mut v = vec![z(1)]; v.extend(err_obs(&e)); (l(v), usize::MAX) }
                    }
                } else {
                    let mut ser = serde_json_core::ser::Serializer::new(&mut buf[..]);
                    let r = t.serialize_by_key(DynKeys(k), &mut ser);
                    let n = ser.end();
                    match r { Ok(_) => (l(vec![z(0)]), n), Err(e) => { let mut v = vec![z(1)]; v.extend(err_obs(&e)); (l(v), usize::MAX) } }
                }
            });
            let lg1 = log_obs();
            if len == usize::MAX {
                l(vec![z(0), r1, lg1])
            } else {
                let p = buf[..len].to_vec();
                let (r2, fin) = with_keys(&op["keys"], &mut |k| {
                    if pc {
                        match miniconf::postcard::set_by_key(&mut *t, DynKeys(k), postcard::de_flavors::Slice::new(&p[..])) {
                            Ok(rem) => (l(vec![z(0)]), rem.is_empty()),
                            Err(e) => { let mut v = vec![z(1)]; v.extend(err_obs(&e)); (l(v), true) }
                        }
                    } else {
                        let mut de = serde_json_core::de::Deserializer::new(&p, None);
                        let r = t.deserialize_by_key(DynKeys(k), &mut de);
                        match r {
                            Ok(_) => (l(vec![z(0)]), de.end().map(|n| n == p.len()).unwrap_or(false)),
                            Err(e) => { let mut v = vec![z(1)]; v.extend(err_obs(&e)); (l(v), true) }
                        }
                    }
                });
                l(vec![z(1), r2, b(fin), lg1, log_obs(), snap_delta(&*t, before)])
            }
}
pub fn run_op<T>(t: &mut T, op: &Value) -> Obs
where T: TreeKey + TreeSerialize + TreeDeserializeOwned + TreeAny + Snap {
    let before = match op["op"].as_str().unwrap() { "ser" | "de" | "ref" | "mut" | "rt" => Snap::snap(&*t), _ => l(vec![]) };
    match op["op"].as_str().unwrap() {
        "transcode" => transcode_op::<T>(op),
        "rawtrav" => rawtrav_op::<T>(op),
        "meta" => meta_op::<T>(),
        "ser" => ser_op(&*t, op, &before),
        "de" => de_op(t, op, &before),
        "rt" => rt_op(t, op, &before),
        "ref" => {
            let r = with_keys(&op["keys"], &mut |k| { let r = t.ref_any_by_key(DynKeys(k)); tres_obs(&r, |a| any_obs(*a)) });
            l(vec![r, log_obs(), snap_delta(&*t, &before)])
        }
        "mut" => {
            let p = bytes(&op["payload"]);
            let r = with_keys(&op["keys"], &mut |k| {
                match t.mut_any_by_key(DynKeys(k)) {
                    Ok(a) => l(vec![z(0), any_assign(a, &p)]),
                    Err(e) => { let mut v = vec![z(1)]; v.extend(trav_obs(&e)); l(v) }
                }
            });
            l(vec![r, log_obs(), snap_delta(&*t, &before)])
        }
        "snap" => Snap::snap(&*t),
        other => panic!("op {other}"),
    }
}

/// types that implement only TreeKey + TreeSerialize (RangeInclusive and containers of it): the read-only operations
pub fn run_op_ro<T>(t: &mut T, op: &Value) -> Obs
where T: TreeKey + TreeSerialize + Snap {
    let before = match op["op"].as_str().unwrap() { "ser" => Snap::snap(&*t), _ => l(vec![]) };
    match op["op"].as_str().unwrap() {
        "transcode" => transcode_op::<T>(op),
        "rawtrav" => rawtrav_op::<T>(op),
        "meta" => meta_op::<T>(),
        "ser" => ser_op(&*t, op, &before),
        "snap" => Snap::snap(&*t),
        other => panic!("op {other} on a read-only type"),
    }
}
/// types without TreeAny (rc::Weak / sync::Weak and containers of them): everything but ref_any / mut_any
pub fn run_op_noany<T>(t: &mut T, op: &Value) -> Obs
where T: TreeKey + TreeSerialize + TreeDeserializeOwned + Snap {
    let before = match op["op"].as_str().unwrap() { "ser" | "de" | "rt" => Snap::snap(&*t), _ => l(vec![]) };
    match op["op"].as_str().unwrap() {
        "transcode" => transcode_op::<T>(op),
        "rawtrav" => rawtrav_op::<T>(op),
        "meta" => meta_op::<T>(),
        "ser" => ser_op(&*t, op, &before),
        "de" => de_op(t, op, &before),
        "rt" => rt_op(t, op, &before),
        "snap" => Snap::snap(&*t),
        other => panic!("op {other} on a type without TreeAny"),
    }
}

fn item_obs<N>(it: Option<Result<(N, Node), usize>>, f: &dyn Fn(&N) -> Obs, res: Option<&dyn Fn(&N, &Node) -> Obs>) -> Obs {
    match it {
        None => l(vec![z(2)]),
        Some(Ok((n, node))) => {
            let mut v = vec![z(0), f(&n), z(node.depth()), b(node.is_leaf())];
            if let Some(r) = res { v.push(r(&n, &node)); }
            l(v)
        }
        Some(Err(d)) => l(vec![z(1), z(d)]),
    }
}
fn drive<T: TreeKey, N: Transcode + Default, const D: usize>(op: &Value, f: &dyn Fn(&N) -> Obs, res: &dyn Fn(&N, &Node) -> Obs) -> Obs {
    let res: Option<&dyn Fn(&N, &Node) -> Obs> = if op["resolve"].as_bool().unwrap_or(false) { Some(res) } else { None };
    let it: NodeIter<T, N, D> = T::nodes::<N, D>();
    let maxn = op["max"].as_u64().unwrap_or(2000) as usize;
    let it = if op["root"].is_null() { Ok(it) } else {
        // optionally advance before (re-)rooting, and root twice
        let mut it = it;
        for _ in 0..op["pre_steps"].as_u64().unwrap_or(0) { it.next(); }
        let it = if op["root0"].is_null() { Ok(it) } else { let mut slot = Some(it); with_keys(&op["root0"], &mut |k| slot.take().unwrap().root(DynKeys(k))) };
        match it { Ok(it) => { let mut slot = Some(it); with_keys(&op["root"], &mut |k| slot.take().unwrap().root(DynKeys(k))) }, Err(e) => Err(e) }
    };
    let mut it = match it { Ok(it) => it, Err(e) => { let mut v = vec![z(1)]; v.extend(trav_obs(&e)); return l(v); } };
    let mut items = vec![];
    let mut exact = vec![];
    if op["exact"].as_bool().unwrap_or(false) {
        let mut e = it.exact_size();
        loop {
            exact.push(z(e.len()));
            let x = e.next();
            let done = x.is_none();
            items.push(item_obs(x, f, res));
            if done || items.len() > maxn { break; }
        }
        for _ in 0..2 { items.push(item_obs(e.next(), f, res)); exact.push(z(e.len())); }
    } else {
        loop {
            let x = it.next();
            let done = x.is_none();
            items.push(item_obs(x, f, res));
            if done || items.len() > maxn { break; }
        }
        for _ in 0..2 { items.push(item_obs(it.next(), f, res)); }
    }
    l(vec![z(0), l(items), l(exact)])
}
fn reres<T: TreeKey, K: miniconf::IntoKeys>(k: K) -> Obs {
    let r = T::transcode::<(), K>(k).map(|(_, n)| n);
    tres_obs(&r, node_obs)
}
/// node iteration: op = {"tg": {...}, "root": keys?, "exact": bool}
pub fn iter_op<T: TreeKey, const D: usize>(op: &Value) -> Obs {
    let tg = &op["tg"];
    CAP.with(|c| c.set(tg["cap"].as_u64().unwrap_or(2000) as usize));
    match tg["t"].as_str().unwrap() {
        "unit" => drive::<T, (), D>(op, &|_| l(vec![]), &|_, _| l(vec![])),
        "idx" => drive::<T, TI, D>(op, &|n| l(n.0.iter().map(|x| z(*x)).collect()), &|n, node| reres::<T, _>(n.0[..node.depth().min(n.0.len())].iter())),
        "idxd" => drive::<T, miniconf::Indices<[usize; D]>, D>(op, &|n| l(n.0.iter().map(|x| z(*x)).collect()), &|n, node| reres::<T, _>(n.0[..node.depth().min(D)].iter())),
        "json" => drive::<T, TJ, D>(op, &|n| s(&n.0 .0.s), &|n, _| { let jp = miniconf::JsonPath(n.0 .0.s.as_str()); reres::<T, _>(&jp) }),
        "packed" => drive::<T, Packed, D>(op, &|n| z(n.get()), &|n, _| reres::<T, _>(*n)),
        "path" => match char::from_u32(tg["sep"].as_u64().unwrap() as u32).unwrap() {
            '/' => drive::<T, TP<'/'>, D>(op, &|n| s(&n.0 .0.s), &|n, _| reres::<T, _>(miniconf::Path::<&str, '/'>(n.0 .0.s.as_str()))),
            'é' => drive::<T, TP<'é'>, D>(op, &|n| s(&n.0 .0.s), &|n, _| reres::<T, _>(miniconf::Path::<&str, 'é'>(n.0 .0.s.as_str()))),
            _ => panic!("sep"),
        },
        other => panic!("iter target {other}"),
    }
}

/// the per-type entry point generated code calls: a case = {"state": n, "oracle": {...}, "ops": [...]}
#[macro_export]
macro_rules! impl_case {
    ($name:ident, $t:ty, $build:path, [$($d:literal),+]) => {
        pub fn $name(case: &$crate::serde_json::Value) -> $crate::Obs {
            let mut keep: Vec<Box<dyn std::any::Any>> = vec![];
            let mut t: $t = $build(case["state"].as_u64().unwrap() as usize, &mut keep);
            let mut outs = vec![];
            let mut tables = vec![];
            for op in case["ops"].as_array().unwrap() {
                $crate::set_oracle_json(&op["oracle"]);
                let r = std::panic::catch_unwind(std::panic::AssertUnwindSafe(|| {
                    if op["op"] == "iter" {
                        match op["d"].as_u64().unwrap() {
                            $($d => $crate::iter_op::<$t, $d>(op),)+
                            _ => $crate::l(vec![$crate::z(-996)]),
                        }
                    } else { $crate::run_op(&mut t, op) }
                }));
                let _ = $crate::take_log();
                outs.push(r.unwrap_or_else(|_| $crate::panic()));
                if op["op"] == "de" || op["op"] == "mut" {
                    tables.push($crate::l(vec![$crate::z(outs.len() - 1), $crate::decode_op(op)]));
                }
            }
            drop(t);
            $crate::l(vec![$crate::l(outs), $crate::l(tables)])
        }
    };
}
/// the same for types without TreeAny
#[macro_export]
macro_rules! impl_case_noany {
    ($name:ident, $t:ty, $build:path, [$($d:literal),+]) => {
        pub fn $name(case: &$crate::serde_json::Value) -> $crate::Obs {
            let mut keep: Vec<Box<dyn std::any::Any>> = vec![];
            let mut t: $t = $build(case["state"].as_u64().unwrap() as usize, &mut keep);
            let mut outs = vec![];
            let mut tables = vec![];
            for op in case["ops"].as_array().unwrap() {
                $crate::set_oracle_json(&op["oracle"]);
                let r = std::panic::catch_unwind(std::panic::AssertUnwindSafe(|| {
                    if op["op"] == "iter" {
                        match op["d"].as_u64().unwrap() {
                            $($d => $crate::iter_op::<$t, $d>(op),)+
                            _ => $crate::l(vec![$crate::z(-996)]),
                        }
                    } else { $crate::run_op_noany(&mut t, op) }
                }));
                let _ = $crate::take_log();
                outs.push(r.unwrap_or_else(|_| $crate::panic()));
                if op["op"] == "de" {
                    tables.push($crate::l(vec![$crate::z(outs.len() - 1), $crate::decode_op(op)]));
                }
            }
            drop(t);
            drop(keep);
            $crate::l(vec![$crate::l(outs), $crate::l(tables)])
        }
    };
}
/// the same for TreeKey + TreeSerialize types
#[macro_export]
macro_rules! impl_case_ro {
    ($name:ident, $t:ty, $build:path, [$($d:literal),+]) => {
        pub fn $name(case: &$crate::serde_json::Value) -> $crate::Obs {
            let mut keep: Vec<Box<dyn std::any::Any>> = vec![];
            let mut t: $t = $build(case["state"].as_u64().unwrap() as usize, &mut keep);
            let mut outs = vec![];
            for op in case["ops"].as_array().unwrap() {
                $crate::set_oracle_json(&op["oracle"]);
                let r = std::panic::catch_unwind(std::panic::AssertUnwindSafe(|| {
                    if op["op"] == "iter" {
                        match op["d"].as_u64().unwrap() {
                            $($d => $crate::iter_op::<$t, $d>(op),)+
                            _ => $crate::l(vec![$crate::z(-996)]),
                        }
                    } else { $crate::run_op_ro(&mut t, op) }
                }));
                let _ = $crate::take_log();
                outs.push(r.unwrap_or_else(|_| $crate::panic()));
            }
            drop(t);
            $crate::l(vec![$crate::l(outs), $crate::l(vec![])])
        }
    };
}
pub fn set_oracle_json(v: &Value) {
    let mut m = std::collections::HashMap::new();
    if let Some(o) = v.as_object() {
        for (k, x) in o {
            let id: u32 = k.parse().unwrap();
            let r = if let Some(f) = x.get("fail") { CbRes::Fail(f.as_u64().unwrap() as u32) }
                    else if let Some(d) = x.get("replace") { CbRes::Replace(d.as_u64().unwrap() as usize) } else { CbRes::Ok };
            m.insert(id, r);
        }
    }
    set_oracle(m);
}
/// payload decode table request: {"decode": [bytes]}
pub fn decode_op(op: &Value) -> Obs { crate::snap::decode_table(&bytes(&op["payload"])) }
