//! Key sources built from a JSON description, handed to the generic code as `&mut dyn Keys`;
//! transcode targets with a run-time capacity.
use miniconf::{Chain, IntoKeys, JsonPath, Keys, KeyLookup, Node, Packed, Path, Transcode, Traversal, TreeKey};
use serde_json::Value;
use std::cell::Cell;
use std::fmt;

pub struct DynKeys<'a>(pub &'a mut dyn Keys);
impl Keys for DynKeys<'_> {
    fn next(&mut self, lookup: &KeyLookup) -> Result<usize, Traversal> { self.0.next(lookup) }
    fn finalize(&mut self) -> Result<(), Traversal> { self.0.finalize() }
}
impl<'a> IntoKeys for DynKeys<'a> {
    type IntoKeys = Self;
    fn into_keys(self) -> Self { self }
}

fn path_keys<R>(sep: u32, s: &str, f: &mut dyn FnMut(&mut dyn Keys) -> R) -> R {
    macro_rules! p { ($c:literal) => {{ let mut k = Path::<&str, $c>(s).into_keys(); f(&mut k) }}; }
    match char::from_u32(sep).unwrap() {
        '/' => p!('/'), '.' => p!('.'), '|' => p!('|'), 'é' => p!('é'), '€' => p!('€'), '😀' => p!('😀'),
        _ => panic!("separator not in menu"),
    }
}

/// build the key source described by `spec` and run `f` on it
pub fn with_keys<R>(spec: &Value, f: &mut dyn FnMut(&mut dyn Keys) -> R) -> R {
    match spec["k"].as_str().unwrap() {
        "ints" => {
            let v = spec["v"].as_array().unwrap();
            macro_rules! ints { ($t:ty) => {{
                let xs: Vec<$t> = v.iter().map(|x| x.as_str().unwrap().parse::<$t>().unwrap()).collect();
                let mut k = xs.into_keys(); f(&mut k) }}; }
            match spec["w"].as_str().unwrap() {
                "usize" => ints!(usize), "u8" => ints!(u8), "u16" => ints!(u16), "u32" => ints!(u32), "u64" => ints!(u64),
                "u128" => ints!(u128), "isize" => ints!(isize), "i8" => ints!(i8), "i16" => ints!(i16), "i32" => ints!(i32),
                "i64" => ints!(i64), "i128" => ints!(i128), _ => panic!("width"),
            }
        }
        "names" => {
            let xs: Vec<&str> = spec["v"].as_array().unwrap().iter().map(|x| x.as_str().unwrap()).collect();
            let mut k = xs.into_keys();
            f(&mut k)
        }
        "path" => path_keys(spec["sep"].as_u64().unwrap() as u32, spec["s"].as_str().unwrap(), f),
        "json" => {
            let jp = JsonPath(spec["s"].as_str().unwrap());
            let mut k = (&jp).into_keys();
            f(&mut k)
        }
        "packed" => {
            let w: usize = spec["w"].as_str().unwrap().parse().unwrap();
            let mut k = Packed::new(w).unwrap();
            f(&mut k)
        }
        "chain" => with_keys(&spec["a"], &mut |ka| with_keys(&spec["b"], &mut |kb| {
            let mut c = Chain::new(&mut *ka, &mut *kb);
            f(&mut c)
        })),
        other => panic!("key kind {other}"),
    }
}

/// a Write that accepts `cap` bytes in total; each write_str is all-or-nothing (as heapless::String)
#[derive(Debug, Clone, PartialEq)]
pub struct CapStr { pub s: String, pub cap: usize }
impl fmt::Write for CapStr {
    fn write_str(&mut self, x: &str) -> fmt::Result {
        if self.s.len() + x.len() > self.cap { Err(fmt::Error) } else { self.s.push_str(x); Ok(()) }
    }
}
thread_local! { pub static CAP: Cell<usize> = const { Cell::new(usize::MAX) }; }
fn cap() -> usize { CAP.with(|c| c.get()) }

pub struct TP<const S: char>(pub Path<CapStr, S>);
impl<const S: char> Default for TP<S> { fn default() -> Self { TP(Path(CapStr { s: String::new(), cap: cap() })) } }
impl<const S: char> Transcode for TP<S> {
    fn transcode<M: TreeKey + ?Sized, K: IntoKeys>(&mut self, keys: K) -> Result<Node, Traversal> { self.0.transcode::<M, K>(keys) }
}
pub struct TJ(pub JsonPath<CapStr>);
impl Default for TJ { fn default() -> Self { TJ(JsonPath(CapStr { s: String::new(), cap: cap() })) } }
impl Transcode for TJ {
    fn transcode<M: TreeKey + ?Sized, K: IntoKeys>(&mut self, keys: K) -> Result<Node, Traversal> { self.0.transcode::<M, K>(keys) }
}
pub struct TI(pub Vec<usize>);
impl Default for TI { fn default() -> Self { TI(vec![0; cap().min(64)]) } }
impl Transcode for TI {
    fn transcode<M: TreeKey + ?Sized, K: IntoKeys>(&mut self, keys: K) -> Result<Node, Traversal> { self.0.as_mut_slice().transcode::<M, K>(keys) }
}
