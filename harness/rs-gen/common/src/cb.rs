//! Scripted user callbacks: oracle table, call log, message table.
use std::cell::RefCell;
use std::collections::HashMap;

#[derive(Clone, Copy, Debug)]
pub enum CbRes {
    Ok,
    Replace(usize),
    Fail(u32),
}
thread_local! {
    static LOG: RefCell<Vec<(u8, u32, usize)>> = RefCell::new(vec![]);
    static ORACLE: RefCell<HashMap<u32, CbRes>> = RefCell::new(HashMap::new());
}
pub fn set_oracle(m: HashMap<u32, CbRes>) {
    ORACLE.with(|o| *o.borrow_mut() = m);
}
pub fn oracle(id: u32) -> CbRes {
    ORACLE.with(|o| o.borrow().get(&id).copied().unwrap_or(CbRes::Ok))
}
pub fn log_get(id: u32) {
    LOG.with(|l| l.borrow_mut().push((0, id, 0)));
}
pub fn log_getmut(id: u32) {
    LOG.with(|l| l.borrow_mut().push((1, id, 0)));
}
pub fn log_val(id: u32, depth: usize) {
    LOG.with(|l| l.borrow_mut().push((2, id, depth)));
}
pub fn take_log() -> Vec<(u8, u32, usize)> {
    LOG.with(|l| std::mem::take(&mut *l.borrow_mut()))
}
/// message ids: user messages are "m<id>"; everything else (built-in texts) is id 0
pub const MSGS: [&str; 16] = [
    "m0", "m1", "m2", "m3", "m4", "m5", "m6", "m7", "m8", "m9", "m10", "m11", "m12", "m13", "m14", "m15",
];
pub fn msg(id: u32) -> &'static str {
    MSGS[(id as usize) % MSGS.len()]
}
pub fn msg_id(s: &str) -> i128 {
    if let Some(r) = s.strip_prefix('m') {
        if let Ok(n) = r.parse::<u32>() {
            return n as i128;
        }
    }
    0
}
/// getter outcome for callback `id`
pub fn get_outcome(id: u32) -> Result<(), &'static str> {
    match oracle(id) {
        CbRes::Fail(m) => Err(msg(m)),
        _ => Ok(()),
    }
}
/// validator outcome for callback `id`
pub fn val_outcome(id: u32, depth: usize) -> Result<usize, &'static str> {
    match oracle(id) {
        CbRes::Fail(m) => Err(msg(m)),
        CbRes::Replace(d) => Ok(d),
        CbRes::Ok => Ok(depth),
    }
}
