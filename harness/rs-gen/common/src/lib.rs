//! Static part of the generated-program harness: observation type, snapshot trait for the
//! built-in containers (plain field access, no miniconf traits involved), key builders,
//! transcode targets with run-time capacity, and the generic per-type operation runner.
pub mod obs;
pub mod snap;
pub mod keys;
pub mod ops;
pub mod cb;
pub use obs::*;
pub use snap::*;
pub use cb::*;
pub use ops::*;
pub use miniconf;
pub use serde_json;
