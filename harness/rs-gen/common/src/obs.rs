//! Canonical observation values printed as JSON arrays of integers.
use std::fmt;

#[derive(Clone, Debug, PartialEq)]
pub enum Obs {
    Z(i128),
    L(Vec<Obs>),
}
impl fmt::Display for Obs {
    fn fmt(&self, f: &mut fmt::Formatter<'_>) -> fmt::Result {
        match self {
            Obs::Z(z) => write!(f, "{z}"),
            Obs::L(l) => {
                write!(f, "[")?;
                for (i, x) in l.iter().enumerate() {
                    if i > 0 {
                        write!(f, ",")?;
                    }
                    write!(f, "{x}")?;
                }
                write!(f, "]")
            }
        }
    }
}
pub fn z<T: TryInto<i128>>(x: T) -> Obs {
    Obs::Z(x.try_into().ok().unwrap())
}
pub fn b(x: bool) -> Obs {
    Obs::Z(x as i128)
}
pub fn none() -> Obs {
    Obs::L(vec![])
}
pub fn some(x: Obs) -> Obs {
    Obs::L(vec![x])
}
pub fn opt<T>(x: Option<T>, f: impl FnOnce(T) -> Obs) -> Obs {
    match x {
        None => none(),
        Some(v) => some(f(v)),
    }
}
pub fn l(v: Vec<Obs>) -> Obs {
    Obs::L(v)
}
pub fn s(x: &str) -> Obs {
    Obs::L(x.chars().map(|c| Obs::Z(c as i128)).collect())
}
pub const PANIC: i128 = -999;
pub fn panic() -> Obs {
    Obs::L(vec![Obs::Z(PANIC)])
}
