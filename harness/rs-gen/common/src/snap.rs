//! Whole-tree snapshots by plain field access.  Obs layout (mirrors coq/Tree_tie.v):
//!   leaf   [0, type id, value]          gate [1, state(0 ok,1 absent,2 blocked), inner?]
//!   prod   [2, [children...]]           sum  [3, active or -1, inner?]
use crate::obs::*;
use miniconf::{Deny, Leaf, StrLeaf};
use std::borrow::Cow;
use std::cell::{Cell, RefCell};
use std::ops::{Bound, Range, RangeFrom, RangeInclusive, RangeTo};
use std::rc::Rc;
use std::sync::{Arc, Mutex, RwLock};

/// leaf payload types: canonical value obs and a type id (same numbering as gen/schema.py)
pub trait LeafVal: 'static {
    const TID: i128;
    fn val(&self) -> Obs;
}
macro_rules! leaf_int {
    ($($t:ty = $id:expr),+) => {$(
        impl LeafVal for $t { const TID: i128 = $id; fn val(&self) -> Obs { l(vec![z(0), Obs::Z(*self as i128)]) } }
    )+};
}
leaf_int!(u8 = 1, i8 = 2, u16 = 3, i16 = 4, u32 = 5, i32 = 6, u64 = 7, i64 = 8);
impl LeafVal for bool {
    const TID: i128 = 9;
    fn val(&self) -> Obs { l(vec![z(1), b(*self)]) }
}
impl LeafVal for () {
    const TID: i128 = 10;
    fn val(&self) -> Obs { l(vec![z(2)]) }
}
impl LeafVal for Option<i8> {
    const TID: i128 = 11;
    fn val(&self) -> Obs { l(vec![z(3), opt(*self, |x| x.val())]) }
}
impl LeafVal for [u16; 2] {
    const TID: i128 = 12;
    fn val(&self) -> Obs { l(vec![z(4), l(self.iter().map(|x| x.val()).collect())]) }
}
impl LeafVal for heapless::String<8> {
    const TID: i128 = 13;
    fn val(&self) -> Obs { l(vec![z(5), s(self.as_str())]) }
}
impl LeafVal for (u8, bool) {
    const TID: i128 = 14;
    fn val(&self) -> Obs { l(vec![z(4), l(vec![self.0.val(), self.1.val()])]) }
}

pub trait Snap {
    fn snap(&self) -> Obs;
}
impl<T: LeafVal> Snap for Leaf<T> {
    fn snap(&self) -> Obs { l(vec![z(0), z(T::TID), self.0.val()]) }
}
impl<T: LeafVal> Snap for Deny<T> {
    fn snap(&self) -> Obs { l(vec![z(0), z(T::TID), self.0.val()]) }
}
/// StrLeaf payloads: tag enums
pub trait TagVal {
    fn tag(&self) -> i128;
}
#[derive(Clone, Copy, Debug, PartialEq)]
pub enum Tag3 { A, Bb, Ccc }
impl AsRef<str> for Tag3 {
    fn as_ref(&self) -> &str { match self { Tag3::A => "A", Tag3::Bb => "Bb", Tag3::Ccc => "Ccc" } }
}
impl TryFrom<&str> for Tag3 {
    type Error = ();
    fn try_from(s: &str) -> Result<Self, ()> { match s { "A" => Ok(Tag3::A), "Bb" => Ok(Tag3::Bb), "Ccc" => Ok(Tag3::Ccc), _ => Err(()) } }
}
impl TagVal for Tag3 {
    fn tag(&self) -> i128 { *self as i128 }
}
impl<T: TagVal> Snap for StrLeaf<T> {
    fn snap(&self) -> Obs { l(vec![z(0), z(20), l(vec![z(6), z(self.0.tag())])]) }
}
fn gate(state: i128, inner: Option<Obs>) -> Obs {
    let mut v = vec![z(1), z(state)];
    if let Some(i) = inner { v.push(i); }
    l(v)
}
impl<T: Snap> Snap for Option<T> {
    fn snap(&self) -> Obs { match self { Some(x) => gate(0, Some(x.snap())), None => gate(1, None) } }
}
impl<T: Snap> Snap for Box<T> {
    fn snap(&self) -> Obs { gate(0, Some((**self).snap())) }
}
impl<T: Snap + Copy> Snap for Cell<T> {
    fn snap(&self) -> Obs { gate(0, Some(self.get().snap())) }
}
impl<T: Snap> Snap for RefCell<T> {
    fn snap(&self) -> Obs {
        // 0 = not borrowed, 2 = mutably borrowed (leaked guard), 3 = immutably borrowed (leaked guard)
        let state = if self.try_borrow_mut().is_ok() { 0 } else if self.try_borrow().is_ok() { 3 } else { 2 };
        // SAFETY: single-threaded harness; a leaked borrow flag has no live guard
        let inner = unsafe { (*self.as_ptr()).snap() };
        gate(state, Some(inner))
    }
}
// reference wrappers: &mut T (all four traits through the blanket impls), &RefCell / &Mutex / &RwLock (TreeDeserialize
// through interior mutability): one gate level each, with the state of the cell behind the reference; plain &T
// (TreeKey + TreeSerialize only) for the shapes the curated programs use
impl<T: Snap> Snap for &mut T {
    fn snap(&self) -> Obs { gate(0, Some((**self).snap())) }
}
impl<T: Snap> Snap for &RefCell<T> {
    fn snap(&self) -> Obs { (**self).snap() }
}
impl<T: Snap> Snap for &Mutex<T> {
    fn snap(&self) -> Obs { (**self).snap() }
}
impl<T: Snap> Snap for &RwLock<T> {
    fn snap(&self) -> Obs { (**self).snap() }
}
impl<T: LeafVal> Snap for &Leaf<T> {
    fn snap(&self) -> Obs { gate(0, Some((**self).snap())) }
}
impl<T: Snap, const N: usize> Snap for &[T; N] {
    fn snap(&self) -> Obs { gate(0, Some((**self).snap())) }
}
impl<T: Snap + Clone> Snap for Cow<'_, T> {
    fn snap(&self) -> Obs { gate(0, Some((**self).snap())) }
}
impl<T: Snap> Snap for Rc<T> {
    fn snap(&self) -> Obs { gate(if Rc::strong_count(self) > 1 || Rc::weak_count(self) > 0 { 2 } else { 0 }, Some((**self).snap())) }
}
impl<T: Snap> Snap for Arc<T> {
    fn snap(&self) -> Obs { gate(if Arc::strong_count(self) > 1 || Arc::weak_count(self) > 0 { 2 } else { 0 }, Some((**self).snap())) }
}
impl<T: Snap> Snap for std::rc::Weak<T> {
    fn snap(&self) -> Obs { match self.upgrade() { Some(x) => gate(0, Some((*x).snap())), None => gate(1, None) } }
}
impl<T: Snap> Snap for std::sync::Weak<T> {
    fn snap(&self) -> Obs { match self.upgrade() { Some(x) => gate(0, Some((*x).snap())), None => gate(1, None) } }
}
impl<T: Snap> Snap for Mutex<T> {
    fn snap(&self) -> Obs {
        match self.lock() { Ok(g) => gate(0, Some(g.snap())), Err(p) => gate(2, Some(p.into_inner().snap())) }
    }
}
impl<T: Snap> Snap for RwLock<T> {
    fn snap(&self) -> Obs {
        match self.read() { Ok(g) => gate(0, Some(g.snap())), Err(p) => gate(2, Some(p.into_inner().snap())) }
    }
}
pub fn prod(v: Vec<Obs>) -> Obs { l(vec![z(2), l(v)]) }
pub fn sum(active: i128, inner: Option<Obs>) -> Obs {
    let mut v = vec![z(3), z(active)];
    if let Some(i) = inner { v.push(i); }
    l(v)
}
impl<T: Snap, const N: usize> Snap for [T; N] {
    fn snap(&self) -> Obs { prod(self.iter().map(|x| x.snap()).collect()) }
}
macro_rules! snap_tuple {
    ($($i:tt $t:ident)+) => {
        impl<$($t: Snap),+> Snap for ($($t,)+) {
            fn snap(&self) -> Obs { prod(vec![$(self.$i.snap()),+]) }
        }
    };
}
snap_tuple!(0 T0);
snap_tuple!(0 T0 1 T1);
snap_tuple!(0 T0 1 T1 2 T2);
snap_tuple!(0 T0 1 T1 2 T2 3 T3);
snap_tuple!(0 T0 1 T1 2 T2 3 T3 4 T4);
snap_tuple!(0 T0 1 T1 2 T2 3 T3 4 T4 5 T5);
snap_tuple!(0 T0 1 T1 2 T2 3 T3 4 T4 5 T5 6 T6);
snap_tuple!(0 T0 1 T1 2 T2 3 T3 4 T4 5 T5 6 T6 7 T7);
impl<T: Snap, E: Snap> Snap for Result<T, E> {
    fn snap(&self) -> Obs { match self { Ok(x) => sum(0, Some(x.snap())), Err(x) => sum(1, Some(x.snap())) } }
}
impl<T: Snap> Snap for Bound<T> {
    fn snap(&self) -> Obs {
        match self { Bound::Included(x) => sum(0, Some(x.snap())), Bound::Excluded(x) => sum(1, Some(x.snap())), Bound::Unbounded => sum(-1, None) }
    }
}
impl<T: Snap> Snap for Range<T> {
    fn snap(&self) -> Obs { prod(vec![self.start.snap(), self.end.snap()]) }
}
impl<T: Snap> Snap for RangeInclusive<T> {
    fn snap(&self) -> Obs { prod(vec![self.start().snap(), self.end().snap()]) }
}
impl<T: Snap> Snap for RangeFrom<T> {
    fn snap(&self) -> Obs { prod(vec![self.start.snap()]) }
}
impl<T: Snap> Snap for RangeTo<T> {
    fn snap(&self) -> Obs { prod(vec![self.end.snap()]) }
}

/// &dyn Any of a leaf -> value obs (for ref_any / mut_any): [type id, value]
pub fn any_obs(a: &dyn std::any::Any) -> Obs {
    macro_rules! try_ty { ($($t:ty),+) => {$( if let Some(x) = a.downcast_ref::<$t>() { return l(vec![z(<$t as LeafVal>::TID), x.val()]); } )+}; }
    try_ty!(u8, i8, u16, i16, u32, i32, u64, i64, bool, (), Option<i8>, [u16; 2], heapless::String<8>, (u8, bool));
    l(vec![z(-1)])
}
/// assign a JSON-decoded payload through &mut dyn Any; false if the payload does not decode
pub fn any_assign(a: &mut dyn std::any::Any, payload: &[u8]) -> Obs {
    macro_rules! try_ty { ($($t:ty),+) => {$( if let Some(x) = a.downcast_mut::<$t>() {
        use serde::Deserialize;
        let mut de = serde_json_core::de::Deserializer::new(payload, None);
        return match <$t>::deserialize(&mut de) { Ok(v) => { *x = v; z(1) } Err(_) => z(0) };
    } )+}; }
    try_ty!(u8, i8, u16, i16, u32, i32, u64, i64, bool, (), Option<i8>, [u16; 2], heapless::String<8>, (u8, bool));
    z(-1)
}
/// what the value's own serde impl does with a payload, for every leaf type id (the codec is the
/// environment of the tree model): [tid, decoded value or [] , trailing-data flag]
pub fn decode_table(payload: &[u8]) -> Obs {
    let mut out = vec![];
    macro_rules! one { ($($t:ty),+) => {$( {
        use serde::Deserialize;
        let mut de = serde_json_core::de::Deserializer::new(payload, None);
        let r = <$t>::deserialize(&mut de);
        let e = match r { Ok(v) => { let fin = de.end().is_ok(); l(vec![z(<$t as LeafVal>::TID), z(1), v.val(), b(fin)]) }
                          Err(_) => l(vec![z(<$t as LeafVal>::TID), z(0), none(), b(false)]) };
        out.push(e);
    } )+}; }
    one!(u8, i8, u16, i16, u32, i32, u64, i64, bool, (), Option<i8>, [u16; 2], heapless::String<8>, (u8, bool));
    // StrLeaf<Tag3>: a borrowed str, then TryFrom<&str>
    {
        use serde::Deserialize;
        let mut de = serde_json_core::de::Deserializer::new(payload, None);
        let e = match <&str>::deserialize(&mut de) {
            Ok(name) => { let fin = de.end().is_ok();
                match Tag3::try_from(name) { Ok(t) => l(vec![z(20), z(1), l(vec![z(6), z(t.tag())]), b(fin)]), Err(()) => l(vec![z(20), z(2), none(), b(false)]) } }
            Err(_) => l(vec![z(20), z(0), none(), b(false)]),
        };
        out.push(e);
    }
    l(out)
}
