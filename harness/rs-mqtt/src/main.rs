//! Implementation-side runner for the MQTT client (C07, C10, C13, C14, C18): the real
//! `miniconf_mqtt::MqttClient` over an in-memory TcpClientStack, a minimal MQTT v5 broker stub and
//! a mock clock, driven by JSON schedules (one per stdin line); prints one JSON observation per
//! schedule: for every update() call the probes before/after, the packets the client sent, the
//! update result, what the settings look like and what the tree itself answers to the delivered
//! request (computed on a clone through miniconf directly).
use miniconf::{json, Leaf, Path, Tree, TreeDeserializeOwned, TreeKey, TreeSerialize};
use miniconf_mqtt::minimq::{
    self,
    embedded_nal::{self, nb, TcpClientStack},
    embedded_time::{self, fraction::Fraction, Instant},
};
use serde_json::{json, Value};
use std::{cell::RefCell, collections::VecDeque, io::BufRead, net::SocketAddr, rc::Rc};

#[derive(Default)]
struct Wire {
    to_client: VecDeque<u8>,
    from_client: Vec<u8>,
    connected: bool,
    max_write: usize,
    refuse_connect: bool,
    connects: usize,
    popped: u64,
    established: bool,
    offered: Vec<u8>,        // every byte the client handed to send() for the first time (observation)
    pending_tail: Vec<u8>,   // what send() was offered but did not take (the client retries exactly this)
}
#[derive(Clone)]
struct Stack(Rc<RefCell<Wire>>);
#[derive(Debug)]
struct NetErr;
impl embedded_nal::TcpError for NetErr {
    fn kind(&self) -> embedded_nal::TcpErrorKind {
        embedded_nal::TcpErrorKind::PipeClosed
    }
}
impl TcpClientStack for Stack {
    type TcpSocket = u32;
    type Error = NetErr;
    fn socket(&mut self) -> Result<u32, NetErr> {
        Ok(1)
    }
    fn connect(&mut self, _s: &mut u32, _r: SocketAddr) -> nb::Result<(), NetErr> {
        let mut w = self.0.borrow_mut();
        if w.refuse_connect {
            return Err(nb::Error::WouldBlock);
        }
        w.connected = true;
        w.connects += 1;
        w.established = false;
        w.pending_tail.clear();
        w.to_client.clear();
        w.from_client.clear();
        Ok(())
    }
    fn send(&mut self, _s: &mut u32, b: &[u8]) -> nb::Result<usize, NetErr> {
        let mut w = self.0.borrow_mut();
        if w.pending_tail.is_empty() || b != &w.pending_tail[..] {
            w.offered.extend_from_slice(b);
        }
        if !w.connected {
            w.pending_tail = b.to_vec();
            return Err(nb::Error::Other(NetErr));
        }
        let n = b.len().min(w.max_write);
        w.from_client.extend_from_slice(&b[..n]);
        w.pending_tail = b[n..].to_vec();
        Ok(n)
    }
    fn receive(&mut self, _s: &mut u32, b: &mut [u8]) -> nb::Result<usize, NetErr> {
        let mut w = self.0.borrow_mut();
        if !w.connected {
            return Err(nb::Error::Other(NetErr));
        }
        let mut n = 0;
        while n < b.len() {
            if let Some(x) = w.to_client.pop_front() {
                w.popped += 1;
                b[n] = x;
                n += 1;
            } else {
                break;
            }
        }
        Ok(n)
    }
    fn close(&mut self, _s: u32) -> Result<(), NetErr> {
        self.0.borrow_mut().connected = false;
        Ok(())
    }
}
#[derive(Clone)]
struct Clk(Rc<RefCell<u32>>);
impl embedded_time::Clock for Clk {
    type T = u32;
    const SCALING_FACTOR: Fraction = Fraction::new(1, 1000);
    fn try_now(&self) -> Result<Instant<Self>, embedded_time::clock::Error> {
        Ok(Instant::new(*self.0.borrow()))
    }
}

fn varint(b: &[u8]) -> Option<(usize, usize)> {
    let mut v = 0usize;
    for i in 0..4 {
        let x = *b.get(i)?;
        v |= ((x & 0x7f) as usize) << (7 * i);
        if x & 0x80 == 0 {
            return Some((v, i + 1));
        }
    }
    None
}
fn enc_varint(mut v: usize, out: &mut Vec<u8>) {
    loop {
        let mut x = (v & 0x7f) as u8;
        v >>= 7;
        if v > 0 {
            x |= 0x80;
        }
        out.push(x);
        if v == 0 {
            break;
        }
    }
}
fn be16(b: &[u8]) -> usize {
    u16::from_be_bytes([b[0], b[1]]) as usize
}
fn bytes_json(b: &[u8]) -> Value {
    Value::Array(b.iter().map(|x| json!(*x)).collect())
}

/// decode MQTT v5 properties we care about: response topic (0x08), correlation data (0x09), user
/// properties (0x26), payload format etc. are skipped by their known lengths
fn decode_props(mut p: &[u8]) -> Value {
    let mut resp = Value::Null;
    let mut cd = Value::Null;
    let mut user = vec![];
    while !p.is_empty() {
        let id = p[0];
        p = &p[1..];
        match id {
            0x08 => { let n = be16(p); resp = json!(String::from_utf8_lossy(&p[2..2 + n])); p = &p[2 + n..]; }
            0x09 => { let n = be16(p); cd = bytes_json(&p[2..2 + n]); p = &p[2 + n..]; }
            0x26 => {
                let n = be16(p); let k = String::from_utf8_lossy(&p[2..2 + n]).to_string(); p = &p[2 + n..];
                let m = be16(p); let v = String::from_utf8_lossy(&p[2..2 + m]).to_string(); p = &p[2 + m..];
                user.push(json!([k, v]));
            }
            0x01 | 0x17 | 0x19 | 0x24 | 0x25 | 0x28 | 0x29 | 0x2A => p = &p[1..],
            0x21 | 0x22 | 0x23 | 0x13 => p = &p[2..],
            0x02 | 0x11 | 0x18 | 0x27 => p = &p[4..],
            0x03 | 0x12 | 0x15 | 0x1A | 0x1C | 0x1F => { let n = be16(p); p = &p[2 + n..]; }
            _ => break,
        }
    }
    json!({"resp": resp, "cd": cd, "user": user})
}

struct Broker {
    connack_queued: Option<bool>,   // a CONNACK (with this session-present flag) waits to be read by the client
    ack: bool,           // acknowledge QoS1 publishes
    suback: bool,
    session_present: bool,
    receive_max: Option<u16>,
    held_acks: Vec<[u8; 2]>,
}

/// process what the client wrote; returns decoded packets
fn broker(w: &Rc<RefCell<Wire>>, br: &mut Broker, observe: bool) -> Vec<Value> {
    let mut out = vec![];
    let mut w = w.borrow_mut();
    loop {
        let buf = if observe { w.offered.clone() } else { w.from_client.clone() };
        if buf.len() < 2 {
            break;
        }
        let Some((len, n)) = varint(&buf[1..]) else { break };
        if buf.len() < 1 + n + len {
            break;
        }
        let pkt: Vec<u8> = buf[..1 + n + len].to_vec();
        if observe { w.offered.drain(..1 + n + len); } else { w.from_client.drain(..1 + n + len); }
        let body = &pkt[1 + n..];
        match pkt[0] >> 4 {
            1 => {
                // CONNECT: protocol name, level, flags, keepalive, props, client id, will props, will topic, will payload
                let mut p = 2 + be16(body);
                let _level = body[p];
                let flags = body[p + 1];
                p += 4;
                let (pl, pn) = varint(&body[p..]).unwrap();
                p += pn + pl;
                let idl = be16(&body[p..]);
                p += 2 + idl;
                let mut will = Value::Null;
                if flags & 0x04 != 0 {
                    let (wl, wn) = varint(&body[p..]).unwrap();
                    p += wn + wl;
                    let tl = be16(&body[p..]);
                    let topic = String::from_utf8_lossy(&body[p + 2..p + 2 + tl]).to_string();
                    p += 2 + tl;
                    let pl = be16(&body[p..]);
                    let payload = body[p + 2..p + 2 + pl].to_vec();
                    will = json!({"topic": topic, "payload": bytes_json(&payload), "retain": (flags >> 5) & 1, "qos": (flags >> 3) & 3});
                }
                out.push(json!({"t": "connect", "clean": (flags >> 1) & 1, "will": will}));
                if observe { continue; }
                let mut props = vec![];
                if let Some(rm) = br.receive_max {
                    props.push(0x21);
                    props.extend(rm.to_be_bytes());
                }
                let mut ack = vec![if br.session_present { 1 } else { 0 }, 0];
                enc_varint(props.len(), &mut ack);
                ack.extend(props);
                let mut pk = vec![0x20];
                enc_varint(ack.len(), &mut pk);
                pk.extend(ack);
                w.to_client.extend(pk);
                w.established = true;
                br.connack_queued = Some(br.session_present);
            }
            8 => {
                let (pl, pn) = varint(&body[2..]).unwrap();
                let mut p = 2 + pn + pl;
                let tl = be16(&body[p..]);
                let filter = String::from_utf8_lossy(&body[p + 2..p + 2 + tl]).to_string();
                p += 2 + tl;
                let opts = body[p];
                out.push(json!({"t": "sub", "filter": filter, "nolocal": (opts >> 2) & 1, "qos": opts & 3}));
                if br.suback && !observe {
                    w.to_client.extend([0x90, 4, body[0], body[1], 0, 0]);
                }
            }
            12 => {
                if !observe { w.to_client.extend([0xD0, 0]); }
            }
            3 => {
                let qos = (pkt[0] >> 1) & 3;
                let tl = be16(body);
                let topic = String::from_utf8_lossy(&body[2..2 + tl]).to_string();
                let mut p = 2 + tl;
                let mut id = [0u8; 2];
                if qos > 0 {
                    id = [body[p], body[p + 1]];
                    p += 2;
                }
                let (pl, pn) = varint(&body[p..]).unwrap();
                let props = decode_props(&body[p + pn..p + pn + pl]);
                p += pn + pl;
                out.push(json!({"t": "pub", "topic": topic, "payload": bytes_json(&body[p..]), "retain": pkt[0] & 1, "qos": qos,
                                "dup": (pkt[0] >> 3) & 1, "props": props}));
                if qos > 0 && !observe {
                    if br.ack {
                        w.to_client.extend([0x40, 2, id[0], id[1]]);
                    } else {
                        br.held_acks.push(id);
                    }
                }
            }
            14 => out.push(json!({"t": "disconnect"})),
            t => out.push(json!({"t": "other", "type": t})),
        }
    }
    out
}

fn publish_to_client(w: &Rc<RefCell<Wire>>, m: &Value) {
    let topic = m["topic"].as_str().unwrap();
    let payload: Vec<u8> = m["payload"].as_array().map(|a| a.iter().map(|x| x.as_u64().unwrap() as u8).collect()).unwrap_or_default();
    let mut props = vec![];
    if let Some(r) = m["resp"].as_str() {
        props.push(0x08);
        props.extend((r.len() as u16).to_be_bytes());
        props.extend(r.as_bytes());
    }
    if let Some(c) = m["cd"].as_array() {
        props.push(0x09);
        props.extend((c.len() as u16).to_be_bytes());
        props.extend(c.iter().map(|x| x.as_u64().unwrap() as u8));
    }
    if m["cd_first"].as_bool().unwrap_or(false) {
        // correlation data before the response topic
        let mut p2 = vec![];
        if let Some(c) = m["cd"].as_array() {
            p2.push(0x09);
            p2.extend((c.len() as u16).to_be_bytes());
            p2.extend(c.iter().map(|x| x.as_u64().unwrap() as u8));
        }
        if let Some(r) = m["resp"].as_str() {
            p2.push(0x08);
            p2.extend((r.len() as u16).to_be_bytes());
            p2.extend(r.as_bytes());
        }
        props = p2;
    }
    if let Some(u) = m["user"].as_array() {
        for kv in u {
            let (k, v) = (kv[0].as_str().unwrap(), kv[1].as_str().unwrap());
            props.push(0x26);
            props.extend((k.len() as u16).to_be_bytes());
            props.extend(k.as_bytes());
            props.extend((v.len() as u16).to_be_bytes());
            props.extend(v.as_bytes());
        }
    }
    let mut body = vec![];
    body.extend((topic.len() as u16).to_be_bytes());
    body.extend(topic.as_bytes());
    let qos1 = m["qos1"].as_bool().unwrap_or(false);
    if qos1 {
        // packet identifier of a QoS 1 delivery (the client answers with a PUBACK)
        let id = 1000 + (w.borrow().popped % 50000) as u16;
        body.extend(id.to_be_bytes());
    }
    enc_varint(props.len(), &mut body);
    body.extend(props);
    body.extend(payload);
    let mut pkt = vec![0x30 | if qos1 { 2 } else { 0 } | if m["retain"].as_bool().unwrap_or(false) { 1 } else { 0 }];
    enc_varint(body.len(), &mut pkt);
    pkt.extend(body);
    w.borrow_mut().to_client.extend(pkt);
}

// ---------------------------------------------------------------- settings family
#[derive(Tree, Default, Clone, PartialEq, Debug)]
struct Inner {
    x: Leaf<u8>,
    s: Leaf<heapless::String<900>>,
}
#[derive(Tree, Default, Clone, PartialEq, Debug)]
struct S1 {
    a: Leaf<u32>,
    b: [Leaf<bool>; 2],
    o: Option<Leaf<u8>>,
    i: Inner,
}
#[derive(Tree, Default, Clone, PartialEq, Debug)]
struct S2 {
    x: Leaf<i32>,
    y: Leaf<i32>,
}
#[derive(Tree, Default, Clone, PartialEq, Debug)]
struct In3 {
    p: Leaf<i8>,
    q: Leaf<Option<u16>>,
}
#[derive(Tree, Default, Clone, PartialEq, Debug)]
struct S3 {
    #[tree(validate = self.check)]
    v: Leaf<u8>,
    arr: [[Leaf<u8>; 2]; 2],
    e: Option<In3>,
    #[tree(rename = "renamed")]
    r: (Leaf<bool>, In3),
}
impl S3 {
    fn check(&mut self, depth: usize) -> Result<usize, &'static str> {
        if *self.v > 100 { Err("v out of range") } else { Ok(depth) }
    }
}
#[derive(Tree, Default, Clone, PartialEq, Debug)]
struct S4 {
    only: Leaf<u8>,
}

fn err_text<E: core::fmt::Display>(e: &E) -> String {
    format!("{e}")
}

/// what the tree itself answers (computed on a clone, no MQTT involved)
fn tree_oracle<S>(s: &S, path: &str, payload: &[u8]) -> Value
where
    S: TreeKey + TreeSerialize + TreeDeserializeOwned + Clone + PartialEq,
{
    if payload.is_empty() {
        let mut buf = vec![0u8; 4096];
        match json::get_by_key(s, Path::<_, '/'>::from(path), &mut buf[..]) {
            Ok(n) => {
                // what the same request answers when minimq's transmit buffer cannot hold the value
                let mut tiny = [0u8; 1];
                let ovf = match json::get_by_key(s, Path::<_, '/'>::from(path), &mut tiny[..]) {
                    Err(e) => json!(err_text(&e)),
                    Ok(_) => Value::Null,
                };
                json!({"get": bytes_json(&buf[..n]), "overflow": ovf})
            }
            Err(miniconf::Error::Traversal(miniconf::Traversal::TooShort(_))) => {
                // leaf paths at or below the node
                let mut leaves = vec![];
                if let Ok(it) = S::nodes::<Path<String, '/'>, 8>().root(Path::<_, '/'>::from(path)) {
                    for x in it { if let Ok((p, _)) = x { leaves.push(json!(p.into_inner())); } }
                }
                json!({"internal": leaves})
            }
            Err(e) => json!({"err": err_text(&e)}),
        }
    } else {
        let mut c = s.clone();
        match json::set_by_key(&mut c, Path::<_, '/'>::from(path), payload) {
            Ok(_) => json!({"set_ok": true, "changed": c != *s}),
            Err(e) => json!({"set_err": err_text(&e), "changed": c != *s}),
        }
    }
}

fn leaf_values<S: TreeKey + TreeSerialize>(s: &S) -> Value {
    let mut out = vec![];
    for x in S::nodes::<Path<String, '/'>, 8>() {
        if let Ok((p, _)) = x {
            let mut buf = vec![0u8; 4096];
            let v = match json::get_by_key(s, &p, &mut buf[..]) {
                Ok(n) => json!({"v": bytes_json(&buf[..n])}),
                Err(miniconf::Error::Traversal(miniconf::Traversal::Absent(_))) => json!({"absent": true}),
                Err(e) => json!({"err": err_text(&e)}),
            };
            out.push(json!([p.into_inner(), v]));
        }
    }
    Value::Array(out)
}

fn probe_json(p: &miniconf_mqtt::VerifProbe, remaining: usize) -> Value {
    json!({"state": p.state, "connected": p.connected, "can_publish": p.can_publish, "resp": p.response_topic, "cd": p.correlation_data,
           "iter_root": p.iter_root, "iter_depth": p.iter_depth, "remaining": remaining})
}

trait Init: Sized {
    fn init(v: &Value) -> Self;
}
impl Init for S1 {
    fn init(v: &Value) -> Self {
        let mut s = S1::default();
        if v["o"].as_bool().unwrap_or(false) { s.o = Some(Leaf(7)); }
        for _ in 0..v["slen"].as_u64().unwrap_or(0) { s.i.s.push('x').unwrap(); }
        s
    }
}
impl Init for S2 { fn init(_: &Value) -> Self { S2 { x: Leaf(-5), y: Leaf(9) } } }
impl Init for S3 {
    fn init(v: &Value) -> Self {
        let mut s = S3::default();
        if v["e"].as_bool().unwrap_or(false) { s.e = Some(In3 { p: Leaf(-3), q: Leaf(Some(500)) }); }
        s
    }
}
impl Init for S4 { fn init(_: &Value) -> Self { S4 { only: Leaf(42) } } }

fn run<S, const Y: usize>(sched: &Value) -> Value
where
    S: TreeKey + TreeSerialize + TreeDeserializeOwned + Clone + PartialEq + Init,
{
    let wire = Rc::new(RefCell::new(Wire { max_write: usize::MAX, ..Default::default() }));
    // the client's clock is a wrapping 32-bit millisecond counter that may start anywhere; the log reports the
    // unwrapped time (start + elapsed), which is what a wrap-aware comparison of two readings amounts to
    let t0 = sched["t0"].as_u64().unwrap_or(0);
    let mut vnow: u64 = t0;
    let clk = Clk(Rc::new(RefCell::new(t0 as u32)));
    let bufsize = sched["buffer"].as_u64().unwrap_or(4096) as usize;
    let mut buffer = vec![0u8; bufsize];
    let prefix: String = sched["prefix"].as_str().unwrap_or("dt/dev").to_string();
    let localhost: core::net::IpAddr = "127.0.0.1".parse().unwrap();
    // the constructor asserts that <prefix>/settings<longest path> fits a topic buffer: a refusal (panic) is reported
    let (bufref, pref, w2, c2): (&mut [u8], &str, _, _) = (&mut buffer[..], &prefix, wire.clone(), clk.clone());
    let built = std::panic::catch_unwind(std::panic::AssertUnwindSafe(move || miniconf_mqtt::MqttClient::<S, _, _, minimq::broker::IpBroker, Y>::new(
        Stack(w2),
        pref,
        c2,
        {
            let mut cfg = minimq::ConfigBuilder::new(localhost.into(), bufref).keepalive_interval(sched["keepalive"].as_u64().unwrap_or(600) as u16);
            if let Some(n) = sched["session"].as_u64() { cfg = cfg.session_state(minimq::config::BufferConfig::Exactly(n as usize)); }
            if let Some(n) = sched["tx"].as_u64() { cfg = cfg.tx_buffer(minimq::config::BufferConfig::Exactly(n as usize)); }
            cfg
        },
    )
    .unwrap()));
    let mut s = S::init(&sched["init"]);
    let mut client = match built {
        Ok(c) => c,
        Err(_) => return json!({"steps": [], "leaves": leaf_values(&s), "new": "refused"}),
    };
    let mut br = Broker { connack_queued: None, ack: true, suback: true, session_present: false, receive_max: sched["receive_max"].as_u64().map(|x| x as u16), held_acks: vec![] };
    let mut steps = vec![];
    let mut inflight: VecDeque<(u64, usize, Value)> = VecDeque::new();
    for st in sched["steps"].as_array().unwrap() {
        vnow += st["dt"].as_u64().unwrap_or(100);
        *clk.0.borrow_mut() = vnow as u32;
        // environment actions before this update()
        if let Some(b) = st["ack"].as_bool() { br.ack = b; }
        if let Some(b) = st["suback"].as_bool() { br.suback = b; }
        if let Some(b) = st["session_present"].as_bool() { br.session_present = b; }
        if let Some(n) = st["max_write"].as_u64() { wire.borrow_mut().max_write = n as usize; }
        if st["release_acks"].as_bool().unwrap_or(false) {
            let mut w = wire.borrow_mut();
            for id in br.held_acks.drain(..) { w.to_client.extend([0x40, 2, id[0], id[1]]); }
        }
        if st["drop"].as_bool().unwrap_or(false) { let mut w = wire.borrow_mut(); w.connected = false; w.established = false; }
        if let Some(b) = st["refuse_connect"].as_bool() { wire.borrow_mut().refuse_connect = b; }
        let mut api = Value::Null;
        let r0 = std::panic::catch_unwind(std::panic::AssertUnwindSafe(|| {
            if let Some(a) = st["api"].as_str() {
                match a {
                    "dump" => {
                        let mut leaves = Value::Null;
                        let root = st["api_path"].as_str().unwrap_or("");
                        if let Ok(it) = S::nodes::<Path<String, '/'>, 8>().root(Path::<_, '/'>::from(root)) {
                            leaves = Value::Array(it.filter_map(|x| x.ok()).map(|(p, _)| json!(p.into_inner())).collect());
                        }
                        let r = client.dump(st["api_path"].as_str());
                        api = json!({"dump": r.is_ok(), "leaves": leaves});
                    }
                    "reset" => { client.reset(); api = json!({"reset": true}); }
                    _ => {}
                }
            }
        }));
        let wire_before = wire.borrow().connected;
        // a broker forwards nothing on a connection before it has answered CONNECT
        for key in ["msg", "msg2"] {
            if !st[key].is_null() && wire_before && wire.borrow().established {
                publish_to_client(&wire, &st[key]);
                let w = wire.borrow();
                inflight.push_back((w.popped + w.to_client.len() as u64, w.connects, st[key].clone()));
            }
        }
        // the request the client will meet first, judged against the settings as they are now
        let mut oracle = Value::Null;
        if let Some((_, _, m)) = inflight.front() {
            let topic = m["topic"].as_str().unwrap();
            if let Some(path) = topic.strip_prefix(prefix.as_str()).and_then(|p| p.strip_prefix("/settings")) {
                let payload: Vec<u8> = m["payload"].as_array().map(|a| a.iter().map(|x| x.as_u64().unwrap() as u8).collect()).unwrap_or_default();
                oracle = tree_oracle(&s, path, &payload);
            }
        }
        let connack = br.connack_queued.take();
        let before_clone = s.clone();
        let values_before = leaf_values(&s);
        let remaining_before = client.verif_remaining();
        let pb = client.verif_probe();
        let connects_before = wire.borrow().connects;
        let r = std::panic::catch_unwind(std::panic::AssertUnwindSafe(|| client.update(&mut s)));
        let upd = match (&r0, &r) {
            (Err(_), _) | (_, Err(_)) => json!({"panic": true}),
            (_, Ok(Ok(c))) => json!({"ok": c}),
            (_, Ok(Err(e))) => json!({"err": format!("{e:?}").chars().take(60).collect::<String>()}),
        };
        if r.is_err() {
            // what the client handed to the socket before it panicked
            let packets = broker(&wire, &mut br, true);
            steps.push(json!({"before": probe_json(&pb, remaining_before), "update": upd, "api": api, "oracle": oracle, "packets": packets,
                              "now": vnow, "values": values_before}));
            break;
        }
        let unread = wire.borrow().to_client.len();
        // which queued request did the client read to its end in this call (it handles at most one)
        let mut handled = Value::Null;
        {
            let w = wire.borrow();
            inflight.retain(|(_, ep, _)| *ep == w.connects);
            if let Some((end, _, m)) = inflight.front() {
                if w.popped >= *end {
                    handled = m.clone();
                }
            }
            if !handled.is_null() { inflight.pop_front(); }
        }
        broker(&wire, &mut br, false);
        let packets = broker(&wire, &mut br, true);
        let pa = client.verif_probe();
        let remaining_after = client.verif_remaining();
        steps.push(json!({
            "now": vnow, "before": probe_json(&pb, remaining_before), "after": probe_json(&pa, remaining_after),
            "update": upd, "api": api, "packets": packets, "oracle": oracle, "changed": s != before_clone,
            "values": values_before, "reconnected": wire.borrow().connects != connects_before,
            "wire_connected": wire.borrow().connected,
            "connack": match connack { Some(sp) => json!({"session_present": sp}), None => Value::Null },
            "wire_before": wire_before, "unread": unread, "handled": handled,
        }));
    }
    json!({"steps": steps, "leaves": leaf_values(&s)})
}

fn main() {
    if std::env::var("VERIF_PANIC_MSG").is_err() { std::panic::set_hook(Box::new(|_| {})); }
    let stdin = std::io::stdin();
    for line in stdin.lock().lines() {
        let line = line.unwrap();
        let sched: Value = serde_json::from_str(&line).unwrap();
        let o = match sched["settings"].as_str().unwrap_or("S1") {
            "S1" => run::<S1, 3>(&sched),
            "S2" => run::<S2, 1>(&sched),
            "S3" => run::<S3, 4>(&sched),
            "S4" => run::<S4, 1>(&sched),
            _ => json!({"error": "settings"}),
        };
        println!("{o}");
    }
}
