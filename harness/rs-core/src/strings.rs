use crate::obs::*;
use miniconf::{IntoKeys, JsonPath, JsonPathIter, Keys, KeyLookup, Leaf, Path, PathIter, Tree, TreeKey};

fn parse_str(rest: &str) -> String {
    rest.split_whitespace()
        .map(|x| char::from_u32(x.parse::<u32>().unwrap()).unwrap())
        .collect()
}

fn path_with<const S: char>(s: &str) -> Obs {
    let a: Vec<Obs> = PathIter::<S>::new(Some(s)).map(crate::obs::s).collect();
    let mut it = PathIter::<S>::root(s);
    let mut b = vec![];
    while let Some(x) = it.next() {
        b.push(crate::obs::s(x));
    }
    // fused: keep polling
    let mut extra = 0;
    for _ in 0..3 {
        if it.next().is_some() {
            extra += 1;
        }
    }
    // the Keys adaptor used by every by-key operation: count keys until exhausted
    let mut keys = Path::<&str, S>(s).into_keys();
    let lk = KeyLookup::homogeneous(usize::MAX);
    let mut n = 0;
    loop {
        match keys.next(&lk) {
            Err(miniconf::Traversal::TooShort(_)) => break,
            _ => n += 1,
        }
        if n > 100000 {
            break;
        }
    }
    l(vec![l(a), l(b), z(extra), z(n)])
}

/// `spath <sep code point> <code points...>`
pub fn path(rest: &str) -> Obs {
    let mut it = rest.splitn(2, ' ');
    let sep: u32 = it.next().unwrap().parse().unwrap();
    let s = parse_str(it.next().unwrap_or(""));
    match char::from_u32(sep).unwrap() {
        '/' => path_with::<'/'>(&s),
        '.' => path_with::<'.'>(&s),
        '|' => path_with::<'|'>(&s),
        'é' => path_with::<'é'>(&s),
        '€' => path_with::<'€'>(&s),
        '😀' => path_with::<'😀'>(&s),
        _ => l(vec![z(-997)]),
    }
}

/// `sjson <code points...>`
pub fn json(rest: &str) -> Obs {
    let s = parse_str(rest);
    let mut it = JsonPathIter::from(s.as_str());
    let mut a = vec![];
    while let Some(x) = it.next() {
        a.push(crate::obs::s(x));
    }
    let rest_at_none: &str = it.into();
    let mut extra = 0;
    for _ in 0..3 {
        if it.next().is_some() {
            extra += 1;
        }
    }
    let jp = JsonPath(s.as_str());
    let mut keys = (&jp).into_keys();
    let lk = KeyLookup::homogeneous(usize::MAX);
    let mut cnt = 0;
    loop {
        match keys.next(&lk) {
            Err(miniconf::Traversal::TooShort(_)) => break,
            _ => cnt += 1,
        }
        if cnt > 100000 {
            break;
        }
    }
    l(vec![l(a), crate::obs::s(rest_at_none), z(extra), z(cnt)])
}

#[derive(Tree, Default)]
struct Inner {
    x: Leaf<u8>,
    long_name: [Leaf<u8>; 12],
}
#[derive(Tree, Default)]
struct Fixed {
    a: Leaf<u8>,
    #[tree(rename = "renamed")]
    b: (Leaf<u8>, Inner),
    c: [Inner; 3],
    d: Option<Inner>,
}

fn write_with<const S: char>(idx: &[usize]) -> Obs {
    match Fixed::transcode::<Path<String, S>, _>(idx) {
        Ok((p, node)) => {
            let back: Vec<Obs> = PathIter::<S>::root(&p.0).map(crate::obs::s).collect();
            let again = Fixed::transcode::<Path<String, S>, _>(&p).map(|(q, n)| (q.0, n.depth()));
            l(vec![crate::obs::s(&p.0), z(node.depth()), b(node.is_leaf()), l(back), b(again == Ok((p.0.clone(), node.depth())))])
        }
        Err(e) => l(vec![z(-1), z(e.depth())]),
    }
}

/// `swrite <indices...>`: written forms of a node of the fixed type, parsed back
pub fn write(rest: &str) -> Obs {
    let idx: Vec<usize> = rest.split_whitespace().map(|x| x.parse().unwrap()).collect();
    let j = match Fixed::transcode::<JsonPath<String>, _>(&idx[..]) {
        Ok((p, node)) => {
            let back: Vec<Obs> = JsonPathIter::from(p.0.as_str()).map(crate::obs::s).collect();
            let again = Fixed::transcode::<JsonPath<String>, _>(&p).map(|(q, n)| (q.0, n.depth()));
            l(vec![crate::obs::s(&p.0), z(node.depth()), b(node.is_leaf()), l(back), b(again == Ok((p.0.clone(), node.depth())))])
        }
        Err(e) => l(vec![z(-1), z(e.depth())]),
    };
    l(vec![write_with::<'/'>(&idx), write_with::<'é'>(&idx), write_with::<'😀'>(&idx), j])
}
