use crate::obs::*;
pub fn path(_rest: &str) -> Obs { none() }
pub fn json(_rest: &str) -> Obs { none() }
