//! Implementation-side runner of the correspondence for the parts of miniconf that need no
//! generated types: Packed (C08), PathIter/JsonPathIter (C15).
//! Reads one case per line on stdin, prints one observation (JSON array) per line.
mod obs;
mod packed;
mod strings;
use obs::*;
use std::io::{BufRead, Write};

fn main() {
    std::panic::set_hook(Box::new(|_| {}));
    let stdin = std::io::stdin();
    let stdout = std::io::stdout();
    let mut out = std::io::BufWriter::new(stdout.lock());
    for line in stdin.lock().lines() {
        let line = line.unwrap();
        let mut it = line.splitn(2, ' ');
        let cmd = it.next().unwrap_or("");
        let rest = it.next().unwrap_or("");
        let r = std::panic::catch_unwind(|| match cmd {
            "pseq" => packed::seq(rest),
            "plsb" => packed::lsb(rest),
            "pbits" => packed::bits(rest),
            "ppop" => packed::pop(rest),
            "ppush" => packed::push(rest),
            "spath" => strings::path(rest),
            "sjson" => strings::json(rest),
            "swrite" => strings::write(rest),
            _ => l(vec![z(-998)]),
        });
        let o = r.unwrap_or_else(|_| panic());
        writeln!(out, "{o}").unwrap();
    }
}
