use crate::obs::*;
use miniconf::Packed;

fn state(p: &Packed) -> Obs {
    l(vec![z(p.get()), z(p.len()), z(p.capacity()), b(p.is_empty())])
}

fn nums(s: &str) -> Vec<u128> {
    s.split_whitespace().map(|x| x.parse().unwrap()).collect()
}

/// `pseq w0 b1 v1 b2 v2 ...`: push all fields onto Packed(w0) (stopping at the first failure),
/// then pop the widths that were pushed. Every intermediate word, len, capacity is observed.
pub fn seq(rest: &str) -> Obs {
    let n = nums(rest);
    let mut p = Packed::new(n[0] as usize).unwrap();
    let mut pushes = vec![];
    let mut pushed = vec![];
    for f in n[1..].chunks(2) {
        let (bits, v) = (f[0] as u32, f[1] as usize);
        let r = p.push_lsb(bits, v);
        pushes.push(l(vec![opt(r, z), state(&p)]));
        if r.is_none() {
            break;
        }
        pushed.push(bits);
    }
    let lsb = z(p.into_lsb().get());
    let mut pops = vec![];
    for bits in pushed {
        let r = p.pop_msb(bits);
        pops.push(l(vec![opt(r, z), state(&p)]));
    }
    l(vec![l(pushes), lsb, l(pops)])
}

/// `plsb v`: all LSB conversions on the non-zero word v
pub fn lsb(rest: &str) -> Obs {
    let v = nums(rest)[0] as usize;
    let nz = core::num::NonZero::new(v).unwrap();
    let p = Packed::new(v).unwrap();
    let f = Packed::from_lsb(nz);
    l(vec![
        z(p.into_lsb().get()),
        z(f.get()),
        z(Packed::from_lsb(p.into_lsb()).get()),
        z(f.into_lsb().get()),
        opt(Packed::new_from_lsb(v), |q| z(q.get())),
        state(&p),
    ])
}

/// `pbits n`
pub fn bits(rest: &str) -> Obs {
    let v = nums(rest)[0] as usize;
    z(Packed::bits_for(v))
}

/// `ppop w bits`
pub fn pop(rest: &str) -> Obs {
    let n = nums(rest);
    let mut p = Packed::new(n[0] as usize).unwrap();
    let r = p.pop_msb(n[1] as u32);
    l(vec![opt(r, z), state(&p)])
}

/// `ppush w bits v`
pub fn push(rest: &str) -> Obs {
    let n = nums(rest);
    let mut p = Packed::new(n[0] as usize).unwrap();
    let r = p.push_lsb(n[1] as u32, n[2] as usize);
    l(vec![opt(r, z), state(&p)])
}
